package findings

import (
	"bytes"
	"testing"

	"github.com/syndtr/goleveldb/leveldb/opt"
	"github.com/syndtr/goleveldb/leveldb/storage"
	"github.com/syndtr/goleveldb/leveldb/table"
	"github.com/syndtr/goleveldb/leveldb/util"
)

// D16 (C13): on an empty table, a range-restricted iterator reported
// "corruption on data-block: entries offset not aligned" for First followed by Seek: the
// restart-point search read past the (empty) restart array.
func TestD16_EmptyTableSlicedIteratorSeek(t *testing.T) {
	var buf bytes.Buffer
	o := &opt.Options{BlockSize: 16, Compression: opt.NoCompression}
	w := table.NewWriter(&buf, o, nil, 0)
	if err := w.Close(); err != nil {
		t.Fatal(err)
	}
	r, err := table.NewReader(bytes.NewReader(buf.Bytes()), int64(buf.Len()), storage.FileDesc{Type: storage.TypeTable, Num: 1}, nil, nil, o)
	if err != nil {
		t.Fatal(err)
	}
	defer r.Release()
	it := r.NewIterator(&util.Range{Start: []byte{}, Limit: []byte("z")}, nil)
	defer it.Release()
	if it.First() {
		t.Fatal("First on an empty table returned true")
	}
	if it.Seek([]byte("a")) {
		t.Fatal("Seek on an empty table returned true")
	}
	if err := it.Error(); err != nil {
		t.Fatalf("empty table reported: %v", err)
	}
}
