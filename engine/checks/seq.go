package checks

import (
	"encoding/json"
	"fmt"
	"os"
	"regexp"
	"sort"
	"strings"

	"verif/explore"
	"verif/harness"
	"verif/vsched"
	"verif/vstor"
)

// seqTask asks a worker to replay Ops[:len-1] on a fresh DB, apply the last op, evaluate the
// oracle and report the resulting canonical state.
type seqTask struct {
	Cfg    string   `json:"cfg"`
	Ops    []string `json:"ops"`
	Alpha  []string `json:"alpha"`
	Checks string   `json:"checks"` // subset of "db,views"
	Mode   string   `json:"mode,omitempty"`
	Probes []string `json:"probes,omitempty"` // %hh-escaped; default harness.Probes
}

type seqResult struct {
	Key      uint64         `json:"key"`
	Viol     []string       `json:"viol,omitempty"`
	Enabled  []string       `json:"enabled,omitempty"`
	Layout   string         `json:"layout"`
	Verdict  string         `json:"verdict"`
	Blocked  []string       `json:"blocked,omitempty"`
	Steps    int            `json:"steps"`
	Comp     string         `json:"comp,omitempty"`
	Extra    map[string]int `json:"extra,omitempty"`
	Features []string       `json:"features,omitempty"`
}

// seqHooks lets a property customise the generic sequence execution.
type seqHooks struct {
	Setup func(w *harness.World, t *seqTask)               // before Open
	After func(w *harness.World, t *seqTask, r *seqResult) // after the last op's checks
}

func hasMode(t *seqTask, m string) bool {
	for _, f := range strings.Split(t.Mode, ",") {
		if f == m {
			return true
		}
	}
	return false
}

func runSeq(t *seqTask, hk *seqHooks) *seqResult {
	res := &seqResult{Extra: map[string]int{}}
	var w *harness.World
	opts := vsched.Options{MaxSteps: 1 << 31}
	var monViol []string
	if hasMode(t, "lsm") {
		// C06 monitor: validate every version the moment it becomes current
		last := int64(-1)
		opts.StepHook = func() {
			if w == nil || w.DB == nil || len(monViol) > 0 {
				return
			}
			id := w.DB.VerifVersionID()
			if id == last || id < 0 {
				return
			}
			last = id
			v, st := harness.CheckLSM(w.Stor, w.DB.VerifState(), w.Cfg)
			res.Extra["versions_checked"]++
			res.Extra["tables_read_back"] += st.Tables
			if st.MaxLevel > res.Extra["max_level"] {
				res.Extra["max_level"] = st.MaxLevel
			}
			if st.MaxFilesInLevel > res.Extra["max_files_in_level"] {
				res.Extra["max_files_in_level"] = st.MaxFilesInLevel
			}
			for _, x := range v {
				monViol = append(monViol, fmt.Sprintf("version %d: %s", id, x))
			}
		}
	}
	doChecks := func() {
		if strings.Contains(t.Checks, "db") {
			w.CheckDB()
		}
		if !w.Failed() && strings.Contains(t.Checks, "views") {
			w.CheckViews()
		}
	}
	r := vsched.Run(opts, func() {
		w = harness.NewWorld(harness.Config{Name: t.Cfg})
		if len(t.Probes) > 0 {
			w.Probes = nil
			for _, p := range t.Probes {
				w.Probes = append(w.Probes, harness.Unesc(p))
			}
		}
		w.Scribble = hasMode(t, "scribble")
		if os.Getenv("VERIF_DEBUG") != "" {
			w.Stor.KeepLog = true
			defer func() {
				for _, l := range w.Stor.LogText {
					fmt.Fprintln(os.Stderr, "LOG", l)
				}
				for _, o := range w.Stor.Ops {
					if o.Kind.Mutating() || o.Kind == vstor.KOpen {
						fmt.Fprintln(os.Stderr, "OP", o.String())
					}
				}
			}()
		}
		if hk != nil && hk.Setup != nil {
			hk.Setup(w, t)
		}
		if !w.MustOpen() {
			return
		}
		for i, op := range t.Ops {
			w.Apply(op)
			if !w.Failed() && hasMode(t, "every") && i < len(t.Ops)-1 && w.DB != nil {
				doChecks()
			}
			if w.Failed() {
				w.Viol = append(w.Viol, fmt.Sprintf("(at step %d %q)", i, op))
				return
			}
		}
		res.Key = w.StateKey()
		if w.DB != nil {
			res.Layout = w.Layout().String()
			res.Comp, _ = w.DB.GetProperty("leveldb.compcount")
		}
		res.Enabled = w.Enabled(t.Alpha)
		if w.DB != nil && hasMode(t, "features") {
			res.Features = w.Features()
		}
		if w.DB != nil {
			doChecks()
		}
		if !w.Failed() && hk != nil && hk.After != nil {
			hk.After(w, t, res)
		}
		if !w.Failed() {
			w.Close()
		}
	})
	res.Verdict = r.Verdict.String()
	res.Steps = r.Steps
	if w != nil {
		res.Viol = w.Viol
	}
	res.Viol = append(res.Viol, monViol...)
	if r.Verdict != vsched.Completed {
		res.Blocked = r.Blocked
		res.Viol = append(res.Viol, fmt.Sprintf("execution ended with %s: %v", r.Verdict, r.PanicValue))
		if r.PanicStack != "" {
			res.Blocked = append(res.Blocked, r.PanicStack)
		}
	}
	return res
}

// seqSpec describes one breadth-first search.
type seqSpec struct {
	Cfg    string
	Alpha  []string
	Depth  int
	Checks string
	Mode   string
	Probes []string
	// Prefixes: start the search from the states these histories reach instead of the
	// freshly opened DB ("start from non-initial states").
	Prefixes [][]string
}

type seqStats struct {
	States, Transitions, MaxDepth int
	Exhaustive                    bool
	Layouts                       map[string]int
	Viol                          int
}

// bfs explores all sequences over spec.Alpha up to spec.Depth, de-duplicating on the
// canonical state key. Violations are confirmed by re-running and reported through c.
func bfs(c *explore.Ctx, pool *explore.Pool, spec seqSpec, prop string) seqStats {
	st := seqStats{Layouts: map[string]int{}, Exhaustive: true}
	seen := map[uint64]bool{}
	type node struct {
		ops     []string
		enabled []string
	}
	// depth 0
	root := seqTask{Cfg: spec.Cfg, Ops: nil, Alpha: spec.Alpha, Checks: spec.Checks, Mode: spec.Mode, Probes: spec.Probes}
	var frontier []node
	var rootRes seqResult
	pool.Map([][]byte{explore.MustJSON(root)}, func(i int, b []byte, err error) {
		if err != nil {
			panic(fmt.Sprintf("worker failure on root task: %v", err))
		}
		json.Unmarshal(b, &rootRes)
	})
	if len(rootRes.Viol) > 0 {
		reportSeq(c, pool, prop, root, rootRes)
		st.Viol++
		return st
	}
	seen[rootRes.Key] = true
	st.States = 1
	st.Layouts[rootRes.Layout]++
	frontier = []node{{nil, rootRes.Enabled}}
	if len(spec.Prefixes) > 0 {
		frontier = nil
		var tasks [][]byte
		for _, pf := range spec.Prefixes {
			tasks = append(tasks, explore.MustJSON(seqTask{Cfg: spec.Cfg, Ops: pf, Alpha: spec.Alpha, Checks: spec.Checks, Mode: spec.Mode, Probes: spec.Probes}))
		}
		res := make([]seqResult, len(tasks))
		pool.Map(tasks, func(i int, b []byte, err error) {
			if err == nil {
				json.Unmarshal(b, &res[i])
			} else {
				res[i].Viol = explore.CrashViol(err)
			}
		})
		for i, r := range res {
			st.Transitions++
			if len(r.Viol) > 0 {
				if reportSeq(c, pool, prop, seqTask{Cfg: spec.Cfg, Ops: spec.Prefixes[i], Alpha: spec.Alpha, Checks: spec.Checks, Mode: spec.Mode, Probes: spec.Probes}, r) {
					st.Viol++
				}
				continue
			}
			if !seen[r.Key] {
				seen[r.Key] = true
				st.States++
				st.Layouts[r.Layout]++
				frontier = append(frontier, node{spec.Prefixes[i], r.Enabled})
			}
		}
	}
	for d := 1; d <= spec.Depth && len(frontier) > 0; d++ {
		if c.OutOfTime() {
			st.Exhaustive = false
			break
		}
		var tasks [][]byte
		var metas []seqTask
		for _, n := range frontier {
			for _, op := range n.enabled {
				t := seqTask{Cfg: spec.Cfg, Ops: append(append([]string{}, n.ops...), op), Alpha: spec.Alpha, Checks: spec.Checks, Mode: spec.Mode, Probes: spec.Probes}
				metas = append(metas, t)
				tasks = append(tasks, explore.MustJSON(t))
			}
		}
		results := make([]seqResult, len(tasks))
		errs := make([]error, len(tasks))
		pool.Map(tasks, func(i int, b []byte, err error) {
			errs[i] = err
			if err == nil {
				json.Unmarshal(b, &results[i])
			}
		})
		var next []node
		for i := range tasks {
			st.Transitions++
			if errs[i] != nil {
				results[i].Viol = explore.CrashViol(errs[i])
			}
			r := results[i]
			for k, v := range r.Extra {
				if strings.HasPrefix(k, "max_") {
					if v > c.Get("x_"+k) {
						c.Coverage["x_"+k] = v
					}
				} else {
					c.Add("x_"+k, v)
				}
			}
			if len(r.Viol) > 0 {
				if reportSeq(c, pool, prop, metas[i], r) {
					st.Viol++
				}
				continue
			}
			if seen[r.Key] {
				continue
			}
			seen[r.Key] = true
			st.States++
			st.Layouts[r.Layout]++
			if len(st.Layouts) <= 6 && st.Layouts[r.Layout] == 1 {
				c.Sample(map[string]any{"cfg": spec.Cfg, "ops": metas[i].Ops, "layout": r.Layout, "compactions": r.Comp})
			}
			next = append(next, node{metas[i].Ops, r.Enabled})
		}
		st.MaxDepth = d
		frontier = next
		if st.Viol > 3 {
			st.Exhaustive = false
			break
		}
	}
	return st
}

// findRichHistories runs a breadth-first search (no oracle beyond the model comparison) and
// returns, for every layout feature seen, the shortest operation sequence reaching a state
// with that feature, preferring states that combine many features. Used to start the fault
// and crash enumerations from deep, tombstone-rich, multi-table layouts.
func findRichHistories(c *explore.Ctx, pool *explore.Pool, cfg string, alpha []string, depth, max int) ([][]string, map[string]int) {
	seen := map[uint64]bool{}
	type node struct {
		ops     []string
		enabled []string
	}
	type cand struct {
		ops  []string
		feat []string
	}
	var cands []cand
	featCount := map[string]int{}
	frontier := []node{{nil, alpha}}
	for d := 1; d <= depth && len(frontier) > 0; d++ {
		var tasks [][]byte
		var metas [][]string
		for _, n := range frontier {
			for _, op := range n.enabled {
				ops := append(append([]string{}, n.ops...), op)
				metas = append(metas, ops)
				tasks = append(tasks, explore.MustJSON(seqTask{Cfg: cfg, Ops: ops, Alpha: alpha, Checks: "db", Mode: "features"}))
			}
		}
		results := make([]seqResult, len(tasks))
		pool.Map(tasks, func(i int, b []byte, err error) {
			if err == nil {
				json.Unmarshal(b, &results[i])
			}
		})
		var next []node
		for i, r := range results {
			if len(r.Viol) > 0 || r.Key == 0 || seen[r.Key] {
				continue
			}
			seen[r.Key] = true
			next = append(next, node{metas[i], r.Enabled})
			for _, f := range r.Features {
				featCount[f]++
			}
			if len(r.Features) >= 3 {
				cands = append(cands, cand{metas[i], r.Features})
			}
		}
		frontier = next
		if c.OutOfTime() {
			break
		}
	}
	// greedy cover: repeatedly take the candidate adding most uncovered features (shortest first on ties)
	sort.SliceStable(cands, func(i, j int) bool { return len(cands[i].ops) < len(cands[j].ops) })
	covered := map[string]bool{}
	var out [][]string
	for len(out) < max {
		best, gain := -1, 0
		for i, cd := range cands {
			g := 0
			for _, f := range cd.feat {
				if !covered[f] {
					g++
				}
			}
			if g > gain {
				best, gain = i, g
			}
		}
		if best < 0 {
			break
		}
		out = append(out, cands[best].ops)
		for _, f := range cands[best].feat {
			covered[f] = true
		}
	}
	// then the feature-richest remaining ones
	sort.SliceStable(cands, func(i, j int) bool { return len(cands[i].feat) > len(cands[j].feat) })
	have := map[string]bool{}
	for _, o := range out {
		have[strings.Join(o, " ")] = true
	}
	for _, cd := range cands {
		if len(out) >= max {
			break
		}
		if k := strings.Join(cd.ops, " "); !have[k] {
			have[k] = true
			out = append(out, cd.ops)
		}
	}
	return out, featCount
}

// reportSeq confirms a violation by re-running it (must reproduce identically) and reports it.
func reportSeq(c *explore.Ctx, pool *explore.Pool, prop string, t seqTask, r seqResult) bool {
	same := 0
	var tasks [][]byte
	for i := 0; i < 5; i++ {
		tasks = append(tasks, explore.MustJSON(t))
	}
	pool.Map(tasks, func(i int, b []byte, err error) {
		var rr seqResult
		if err == nil && json.Unmarshal(b, &rr) == nil && len(rr.Viol) > 0 && rr.Viol[0] == r.Viol[0] {
			same++
		} else if cv := explore.CrashViol(err); cv != nil && len(r.Viol) > 0 && stripDigits(cv[0]) == stripDigits(r.Viol[0]) {
			// the same worker failure again (CPU-loop watchdog, crash): reproduced
			same++
		}
	})
	if same != 5 {
		c.Unconf++
		fmt.Printf("UNCONFIRMED %s cfg=%s ops=%v viol=%v (reproduced %d/5)\n", prop, t.Cfg, t.Ops, r.Viol, same)
		return false
	}
	v := &explore.Violation{Property: prop, Sig: map[string]string{
		"check":  "seq",
		"config": t.Cfg,
		"ops":    strings.Join(t.Ops, " "),
		"effect": r.Viol[0],
		"mode":   t.Mode,
	}, Detail: map[string]any{"task": t, "result": r}}
	c.Report(v)
	return true
}

// cfgSelected honours VERIF_CFG (a regexp) for debugging runs.
func cfgSelected(cfg string) bool {
	re := os.Getenv("VERIF_CFG")
	if re == "" {
		return true
	}
	ok, _ := regexp.MatchString(re, cfg)
	return ok
}

func mergeLayouts(dst map[string]int, src map[string]int) {
	for k, v := range src {
		dst[k] += v
	}
}

func sortedKeys(m map[string]int) []string {
	var ks []string
	for k := range m {
		ks = append(ks, k)
	}
	sort.Strings(ks)
	return ks
}

func stripDigits(s string) string {
	b := make([]byte, 0, len(s))
	for i := 0; i < len(s); i++ {
		if s[i] < '0' || s[i] > '9' {
			b = append(b, s[i])
		}
	}
	return string(b)
}
