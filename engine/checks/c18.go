package checks

import (
	"encoding/json"
	"fmt"
	"os"
	"path/filepath"

	"github.com/syndtr/goleveldb/leveldb"
	"github.com/syndtr/goleveldb/leveldb/opt"
	"github.com/syndtr/goleveldb/leveldb/storage"
	"github.com/syndtr/goleveldb/leveldb/util"
	"verif/explore"
	"verif/harness"
	"verif/vsched"
	"verif/vstor"
)

// C18 — ownership and lifecycle. In every state reached by a breadth-first search (data only
// in the journal, in tables, compaction pending, open transaction, live snapshots):
//  closed:   Close, then every exported method of DB / Snapshot / Transaction and a second
//            Close: an error (no panic, no hang) and not a single storage operation;
//            then reopen ReadOnly on the recording storage in audit mode: contents equal the
//            model (journal-only data included), writes fail with ErrReadOnly, no mutating
//            storage operation at all; then a normal reopen still works;
//  readonly: SetReadOnly, then every method: writes ErrReadOnly, reads equal the model, and
//            after settling no further mutating storage operation;
//  released: released snapshots / iterators report their 'released' errors.
// Ownership: every 3-step script over {Open, Open again, Close} on vstor, MemStorage and
// OpenFile(tmp). Calls racing Close are explored under the scheduler (bounded).

var c18Alpha = []string{"put:a", "put:b", "del:a", "b1", "cr", "q", "snap", "otr", "tput:a"}

func wantErr(w *harness.World, what string, err error, want error) {
	if err == nil {
		w.Viol = append(w.Viol, fmt.Sprintf("%s succeeded, expected %v", what, want))
	} else if want != nil && err != want {
		w.Viol = append(w.Viol, fmt.Sprintf("%s returned %q, expected %q", what, err, want))
	}
}

func c18AfterClose(w *harness.World, db *leveldb.DB, r *seqResult) {
	k, v := []byte("a"), []byte("zz")
	_, err := db.Get(k, nil)
	wantErr(w, "Get after Close", err, leveldb.ErrClosed)
	_, err = db.Has(k, nil)
	wantErr(w, "Has after Close", err, leveldb.ErrClosed)
	it := db.NewIterator(nil, nil)
	if it.First() || it.Next() || it.Last() || it.Seek(k) || it.Valid() {
		w.Viol = append(w.Viol, "iterator created after Close yields data")
	}
	wantErr(w, "iterator created after Close: Error()", it.Error(), leveldb.ErrClosed)
	it.Release()
	_, err = db.GetSnapshot()
	wantErr(w, "GetSnapshot after Close", err, leveldb.ErrClosed)
	for _, p := range []string{"leveldb.stats", "leveldb.sstables", "leveldb.num-files-at-level0", "leveldb.iostats", "leveldb.writedelay", "leveldb.blockpool", "leveldb.cachedblock", "leveldb.openedtables", "leveldb.alivesnaps", "leveldb.aliveiters", "leveldb.compcount"} {
		_, err = db.GetProperty(p)
		wantErr(w, "GetProperty("+p+") after Close", err, leveldb.ErrClosed)
	}
	wantErr(w, "Stats after Close", db.Stats(&leveldb.DBStats{}), leveldb.ErrClosed)
	_, err = db.SizeOf([]util.Range{{}})
	wantErr(w, "SizeOf after Close", err, leveldb.ErrClosed)
	wantErr(w, "Put after Close", db.Put(k, v, nil), leveldb.ErrClosed)
	wantErr(w, "Delete after Close", db.Delete(k, nil), leveldb.ErrClosed)
	b := new(leveldb.Batch)
	b.Put(k, v)
	wantErr(w, "Write after Close", db.Write(b, nil), leveldb.ErrClosed)
	big := new(leveldb.Batch)
	big.Put(k, make([]byte, 5<<20))
	wantErr(w, "Write(large batch) after Close", db.Write(big, nil), leveldb.ErrClosed)
	wantErr(w, "CompactRange after Close", db.CompactRange(util.Range{}), leveldb.ErrClosed)
	wantErr(w, "SetReadOnly after Close", db.SetReadOnly(), leveldb.ErrClosed)
	_, err = db.OpenTransaction()
	wantErr(w, "OpenTransaction after Close", err, leveldb.ErrClosed)
	wantErr(w, "second Close", db.Close(), leveldb.ErrClosed)
	r.Extra["closed_method_calls"] += 30
}

func c18Closed(w *harness.World, t *seqTask, r *seqResult) {
	db := w.DB
	snaps := w.Snaps
	tr := w.Tr
	w.Snaps, w.Tr, w.TrM = nil, nil, nil
	if err := db.Close(); err != nil {
		w.Viol = append(w.Viol, fmt.Sprintf("Close returned %v", err))
	}
	w.DB = nil
	nops := len(w.Stor.Ops)
	c18AfterClose(w, db, r)
	for i, s := range snaps {
		_, err := s.S().Get([]byte("a"), nil)
		wantErr(w, fmt.Sprintf("snapshot#%d.Get after DB.Close", i), err, nil)
		_, err = s.S().Has([]byte("a"), nil)
		wantErr(w, fmt.Sprintf("snapshot#%d.Has after DB.Close", i), err, nil)
		it := s.S().NewIterator(nil, nil)
		if it.First() {
			w.Viol = append(w.Viol, "snapshot iterator after DB.Close yields data")
		}
		wantErr(w, "snapshot iterator after DB.Close: Error()", it.Error(), nil)
		it.Release()
		s.S().Release()
		s.S().Release()
		_, err = s.S().Get([]byte("a"), nil)
		wantErr(w, "released snapshot Get", err, leveldb.ErrSnapshotReleased)
	}
	if tr != nil {
		_, err := tr.Get([]byte("a"), nil)
		wantErr(w, "Transaction.Get after DB.Close", err, nil)
		wantErr(w, "Transaction.Put after DB.Close", tr.Put([]byte("a"), []byte("x"), nil), nil)
		wantErr(w, "Transaction.Commit after DB.Close", tr.Commit(), nil)
		tr.Discard()
	}
	if n := len(w.Stor.Ops); n != nops {
		w.Viol = append(w.Viol, fmt.Sprintf("%d storage operation(s) after Close returned, first: %s", n-nops, w.Stor.Ops[nops].String()))
	}
	if w.Stor.Locked() {
		w.Viol = append(w.Viol, "storage still locked after Close")
	}
	if w.Failed() {
		return
	}
	// read-only open on the very same storage, audit mode
	w.Stor.Audit = true
	w.Stor.Breach = nil
	old := w.OpenOpts
	w.OpenOpts = func(o *opt.Options) { o.ReadOnly = true }
	if err := w.Open(); err != nil {
		w.Viol = append(w.Viol, fmt.Sprintf("read-only Open failed: %v", err))
		return
	}
	w.CheckDB()
	wantErr(w, "Put on a read-only DB", w.DB.Put([]byte("a"), []byte("x"), nil), leveldb.ErrReadOnly)
	wantErr(w, "Delete on a read-only DB", w.DB.Delete([]byte("a"), nil), leveldb.ErrReadOnly)
	b := new(leveldb.Batch)
	b.Put([]byte("a"), []byte("x"))
	wantErr(w, "Write on a read-only DB", w.DB.Write(b, nil), leveldb.ErrReadOnly)
	wantErr(w, "CompactRange on a read-only DB", w.DB.CompactRange(util.Range{}), leveldb.ErrReadOnly)
	_, err := w.DB.OpenTransaction()
	wantErr(w, "OpenTransaction on a read-only DB", err, leveldb.ErrReadOnly)
	s, err := w.DB.GetSnapshot()
	if err != nil {
		w.Viol = append(w.Viol, fmt.Sprintf("GetSnapshot on a read-only DB: %v", err))
	} else {
		s.Release()
	}
	vsched.Sleep(90e9)
	w.CheckDB()
	w.DB.Close()
	w.DB = nil
	w.Stor.Audit = false
	for _, br := range w.Stor.Breach {
		w.Viol = append(w.Viol, "read-only DB mutated storage: "+br)
		break
	}
	r.Extra["readonly_opens"]++
	w.OpenOpts = old
	if w.Failed() {
		return
	}
	// and a normal reopen still works and agrees
	if err := w.Open(); err != nil {
		w.Viol = append(w.Viol, fmt.Sprintf("reopen after read-only session failed: %v", err))
		return
	}
	w.CheckDB()
}

func c18ReadOnly(w *harness.World, t *seqTask, r *seqResult) {
	if w.Tr != nil {
		w.Tr.Discard()
		w.Tr, w.TrM = nil, nil
	}
	if err := w.DB.SetReadOnly(); err != nil {
		w.Viol = append(w.Viol, fmt.Sprintf("SetReadOnly: %v", err))
		return
	}
	k := []byte("a")
	wantErr(w, "Put after SetReadOnly", w.DB.Put(k, []byte("x"), nil), leveldb.ErrReadOnly)
	wantErr(w, "Delete after SetReadOnly", w.DB.Delete(k, nil), leveldb.ErrReadOnly)
	b := new(leveldb.Batch)
	b.Put(k, []byte("x"))
	wantErr(w, "Write after SetReadOnly", w.DB.Write(b, nil), leveldb.ErrReadOnly)
	wantErr(w, "CompactRange after SetReadOnly", w.DB.CompactRange(util.Range{}), leveldb.ErrReadOnly)
	_, err := w.DB.OpenTransaction()
	wantErr(w, "OpenTransaction after SetReadOnly", err, leveldb.ErrReadOnly)
	wantErr(w, "second SetReadOnly", w.DB.SetReadOnly(), leveldb.ErrReadOnly)
	w.CheckDB()
	w.CheckViews()
	// in-flight background work drains, then nothing is mutated any more
	vsched.Sleep(120e9)
	n := len(w.Stor.Ops)
	w.CheckDB()
	wantErr(w, "Put after SetReadOnly (settled)", w.DB.Put(k, []byte("x"), nil), leveldb.ErrReadOnly)
	vsched.Sleep(120e9)
	for _, o := range w.Stor.Ops[n:] {
		if o.Kind.Mutating() {
			w.Viol = append(w.Viol, "storage mutated after the read-only DB had settled: "+o.String())
			break
		}
	}
	r.Extra["setreadonly_checks"]++
}

type c18Own struct {
	Kind   string   `json:"kind"` // own
	Stor   string   `json:"stor"`
	Script []string `json:"script"`
}

// runC18FileRO: a real directory, left behind by an earlier session in one of several states
// (clean; a stale CURRENT.<n> as after a crash between writing it and renaming it over CURRENT;
// a CURRENT.bak; a stray temporary file), is opened READ-ONLY through the file storage: all
// data is served, writes are refused, and afterwards the directory is byte for byte what it was.
func runC18FileRO(variant string) []string {
	var viol []string
	bad := func(f string, a ...any) {
		viol = append(viol, fmt.Sprintf("file storage, read-only open, %s: ", variant)+fmt.Sprintf(f, a...))
	}
	dir, err := os.MkdirTemp("", "verif-c18ro-")
	if err != nil {
		return []string{err.Error()}
	}
	defer os.RemoveAll(dir)
	o := harness.Config{Name: "flushy/bytewise"}.Options()
	want := map[string]string{}
	for session := 0; session < 2; session++ {
		db, err := leveldb.OpenFile(dir, o)
		if err != nil {
			return []string{"setup: " + err.Error()}
		}
		for i, k := range []string{"a", "b", "c"} {
			v := fmt.Sprintf("s%d-%d", session, i)
			if session == 1 && k == "b" {
				db.Delete([]byte(k), &opt.WriteOptions{Sync: true})
				delete(want, k)
				continue
			}
			db.Put([]byte(k), []byte(v), &opt.WriteOptions{Sync: true})
			want[k] = v
		}
		if session == 0 {
			db.CompactRange(util.Range{})
		}
		db.Close()
	}
	cur, _ := os.ReadFile(filepath.Join(dir, "CURRENT"))
	switch variant {
	case "clean":
	case "stale-current-n":
		os.WriteFile(filepath.Join(dir, "CURRENT.999"), []byte("MANIFEST-000999\n"), 0o644)
	case "pending-current-n":
		os.WriteFile(filepath.Join(dir, "CURRENT.7"), cur, 0o644)
	case "current-bak":
		os.WriteFile(filepath.Join(dir, "CURRENT.bak"), cur, 0o644)
	case "stray-tmp":
		os.WriteFile(filepath.Join(dir, "000099.tmp"), []byte("junk"), 0o644)
	}
	snap := func() map[string]string {
		m := map[string]string{}
		ents, _ := os.ReadDir(dir)
		for _, e := range ents {
			b, _ := os.ReadFile(filepath.Join(dir, e.Name()))
			m[e.Name()] = string(b)
		}
		return m
	}
	before := snap()
	stor, err := storage.OpenFile(dir, true)
	if err != nil {
		bad("storage.OpenFile(readOnly): %v", err)
		return viol
	}
	ro := harness.Config{Name: "flushy/bytewise"}.Options()
	ro.ReadOnly = true
	db, err := leveldb.Open(stor, ro)
	if err != nil {
		bad("Open: %v", err)
		stor.Close()
		return viol
	}
	for _, k := range []string{"a", "b", "c"} {
		v, err := db.Get([]byte(k), nil)
		w, has := want[k]
		if has && (err != nil || string(v) != w) {
			bad("Get(%q) = %q, %v; written %q", k, v, err, w)
		}
		if !has && err != leveldb.ErrNotFound {
			bad("Get(%q) = %q, %v; the key was deleted", k, v, err)
		}
	}
	if err := db.Put([]byte("a"), []byte("x"), nil); err != leveldb.ErrReadOnly {
		bad("Put returned %v, want ErrReadOnly", err)
	}
	db.Close()
	stor.Close()
	after := snap()
	for n, c := range before {
		c2, ok := after[n]
		switch {
		case !ok:
			bad("file %s was deleted", n)
		case c2 != c:
			bad("file %s was modified", n)
		}
	}
	for n := range after {
		if _, ok := before[n]; !ok {
			bad("file %s was created", n)
		}
	}
	return viol
}

// runC18FileErrClose: a path-backed DB whose Close reports a compaction error (a table was
// damaged on disk and a compaction met it) must still give the directory back.
func runC18FileErrClose() []string {
	var viol []string
	bad := func(f string, a ...any) {
		viol = append(viol, "path-backed DB, Close with a compaction error: "+fmt.Sprintf(f, a...))
	}
	dir, err := os.MkdirTemp("", "verif-c18ec-")
	if err != nil {
		return []string{err.Error()}
	}
	defer os.RemoveAll(dir)
	o := harness.Config{Name: "flushy/bytewise"}.Options()
	db, err := leveldb.OpenFile(dir, o)
	if err != nil {
		return []string{"setup: " + err.Error()}
	}
	for _, k := range []string{"a", "b", "c", "a", "b"} {
		db.Put([]byte(k), []byte("v-"+k), &opt.WriteOptions{Sync: true})
	}
	db.CompactRange(util.Range{})
	db.Close()
	ents, _ := os.ReadDir(dir)
	damaged := 0
	for _, e := range ents {
		if filepath.Ext(e.Name()) == ".ldb" {
			p := filepath.Join(dir, e.Name())
			b, _ := os.ReadFile(p)
			if len(b) > 60 {
				b[3] ^= 0x5a // inside the first data block
				os.WriteFile(p, b, 0o644)
				damaged++
			}
		}
	}
	if damaged == 0 {
		return nil
	}
	db, err = leveldb.OpenFile(dir, o)
	if err != nil {
		return nil // the damage already refuses the open: nothing to observe
	}
	for _, k := range []string{"a", "b", "c"} {
		db.Put([]byte(k), []byte("w-"+k), nil)
	}
	cerr := db.CompactRange(util.Range{})
	closeErr := db.Close()
	if _, e2 := db.Get([]byte("a"), nil); e2 != leveldb.ErrClosed {
		bad("Get after Close returned %v", e2)
	}
	// whatever Close reported, the directory is free again
	db2, err := leveldb.OpenFile(dir, o)
	if err != nil {
		db2, err = leveldb.RecoverFile(dir, o)
	}
	if err != nil {
		bad("the directory is still owned after Close (CompactRange: %v, Close: %v): %v", cerr, closeErr, err)
		return viol
	}
	db2.Close()
	return viol
}

// runC18ROCrash: the history is run once; the durable image after every mutating storage
// operation (unsynced tails lost / kept) - states with orphan tables of unfinished flushes,
// compactions and transactions, half-switched manifests, journals not yet flushed - is opened
// READ-ONLY in audit mode and, on a copy, normally. The read-only open must succeed whenever
// the normal one does, serve exactly what the normal one serves, and must not perform one
// mutating storage operation.
func runC18ROCrash(cfg string, hist []string) (viol []string, images int) {
	var w *harness.World
	r := vsched.Run(vsched.Options{}, func() {
		w = harness.NewWorld(harness.Config{Name: cfg})
		if !w.MustOpen() {
			return
		}
		for _, op := range hist {
			w.Apply(op)
			if w.Failed() {
				return
			}
		}
		vsched.Quiesce()
		w.Close()
	})
	if r.Verdict != vsched.Completed || w == nil || w.Failed() {
		return []string{fmt.Sprintf("read-only on crash images: baseline run failed: %s %v", r.Verdict, r.PanicValue)}, 0
	}
	ops := w.Stor.Ops
	seen := map[uint64]bool{}
	rep := vstor.Replay(nil, nil)
	scan := func(db *leveldb.DB) (map[string]string, error) {
		m := map[string]string{}
		it := db.NewIterator(nil, nil)
		defer it.Release()
		for it.Next() {
			m[string(it.Key())] = string(it.Value())
		}
		return m, it.Error()
	}
	for p := 1; p <= len(ops) && len(viol) == 0; p++ {
		rep.Apply(&ops[p-1])
		if !ops[p-1].Kind.Mutating() {
			continue
		}
		for _, v := range []vstor.Variant{{}, {KeepAll: true}} {
			img := rep.Image(v)
			h := img.Hash()
			if seen[h] {
				continue
			}
			seen[h] = true
			if _, err := img.GetMeta(); err != nil {
				continue // the DB was never created (no CURRENT yet): a read-only open rightly finds nothing
			}
			images++
			where := fmt.Sprintf("history %v, image after %s (%s)", hist, ops[p-1].String(), v.String())
			rw := img.Clone()
			var roErr, rwErr error
			var roObs, rwObs map[string]string
			var breach []string
			rr := vsched.Run(vsched.Options{}, func() {
				o := harness.Config{Name: cfg}.Options()
				o.ReadOnly = true
				img.Audit = true
				db, err := leveldb.Open(img, o)
				if err != nil {
					roErr = err
				} else {
					roObs, roErr = scan(db)
					if err := db.Put([]byte("a"), []byte("x"), nil); err != leveldb.ErrReadOnly {
						viol = append(viol, fmt.Sprintf("read-only open of a crash image: Put returned %v (%s)", err, where))
					}
					vsched.Sleep(90e9)
					db.Close()
				}
				img.Audit = false
				breach = img.Breach
				o2 := harness.Config{Name: cfg}.Options()
				db2, err := leveldb.Open(rw, o2)
				if err != nil {
					rwErr = err
					return
				}
				rwObs, rwErr = scan(db2)
				db2.Close()
			})
			if rr.Verdict != vsched.Completed {
				viol = append(viol, fmt.Sprintf("read-only open of a crash image: execution ended with %s: %v (%s)", rr.Verdict, rr.PanicValue, where))
				break
			}
			if len(breach) > 0 {
				viol = append(viol, fmt.Sprintf("read-only open of a crash image mutated storage: %s (%s)", breach[0], where))
				break
			}
			if img.Hash() != h {
				viol = append(viol, fmt.Sprintf("read-only open of a crash image changed the stored bytes (%s)", where))
				break
			}
			if rwErr != nil {
				continue // not recoverable at all: C04's subject
			}
			if roErr != nil {
				viol = append(viol, fmt.Sprintf("read-only open of a crash image fails (%v) where a normal open succeeds (%s)", roErr, where))
				break
			}
			if len(roObs) != len(rwObs) {
				viol = append(viol, fmt.Sprintf("read-only open of a crash image serves %v, a normal open %v (%s)", roObs, rwObs, where))
				break
			}
			for k, x := range rwObs {
				if roObs[k] != x {
					viol = append(viol, fmt.Sprintf("read-only open of a crash image serves %v, a normal open %v (%s)", roObs, rwObs, where))
					break
				}
			}
		}
	}
	return viol, images
}

var c18Images int

func runC18Own(t *c18Own) []string {
	if t.Stor == "ro-crash" {
		viol, n := runC18ROCrash(t.Script[0], t.Script[1:])
		c18Images = n
		return viol
	}
	if t.Stor == "file-errclose" {
		var viol []string
		r := vsched.Run(vsched.Options{}, func() { viol = runC18FileErrClose() })
		if r.Verdict != vsched.Completed {
			viol = append(viol, fmt.Sprintf("path-backed DB, Close with a compaction error: execution ended with %s: %v", r.Verdict, r.PanicValue))
		}
		return viol
	}
	if t.Stor == "file-ro" {
		var viol []string
		r := vsched.Run(vsched.Options{}, func() { viol = runC18FileRO(t.Script[0]) })
		if r.Verdict != vsched.Completed {
			viol = append(viol, fmt.Sprintf("file storage, read-only open, %s: execution ended with %s: %v", t.Script[0], r.Verdict, r.PanicValue))
		}
		return viol
	}
	var viol []string
	vsched.Run(vsched.Options{}, func() {
		var stor storage.Storage
		var dir string
		switch t.Stor {
		case "vstor":
			stor = vstor.New()
		case "mem":
			stor = storage.NewMemStorage()
		case "file":
			d, err := os.MkdirTemp("", "verif-c18-")
			if err != nil {
				viol = append(viol, err.Error())
				return
			}
			dir = d
			defer os.RemoveAll(dir)
		}
		var dbs []*leveldb.DB
		open := func() (*leveldb.DB, error) {
			if t.Stor == "file" {
				return leveldb.OpenFile(dir, nil)
			}
			return leveldb.Open(stor, nil)
		}
		owner := 0 // number of currently open DBs
		for i, st := range t.Script {
			switch st {
			case "open":
				db, err := open()
				if owner > 0 {
					if err == nil {
						viol = append(viol, fmt.Sprintf("step %d: second Open succeeded while the storage is owned", i))
						dbs = append(dbs, db)
						owner++
					}
				} else {
					if err != nil {
						viol = append(viol, fmt.Sprintf("step %d: Open on a free storage failed: %v", i, err))
					} else {
						dbs = append(dbs, db)
						owner++
					}
				}
			case "close":
				if len(dbs) > 0 {
					db := dbs[len(dbs)-1]
					dbs = dbs[:len(dbs)-1]
					if err := db.Close(); err != nil {
						viol = append(viol, fmt.Sprintf("step %d: Close: %v", i, err))
					}
					owner--
				}
			}
		}
		for _, db := range dbs {
			db.Close()
		}
	})
	return viol
}

func init() {
	hk := &seqHooks{After: func(w *harness.World, t *seqTask, r *seqResult) {
		switch {
		case hasMode(t, "closed"):
			c18Closed(w, t, r)
		case hasMode(t, "readonly"):
			c18ReadOnly(w, t, r)
		}
	}}
	seqW := seqWorker(hk)
	dfsW := dfsWorker(map[string]func(json.RawMessage) explore.RunFunc{"conc": concScenario})
	register(&Check{
		ID:    "C18",
		Level: "model_checking",
		Worker: func(task []byte) []byte {
			var probe struct {
				Kind     string `json:"kind"`
				Scenario string `json:"scenario"`
			}
			json.Unmarshal(task, &probe)
			switch {
			case probe.Kind == "own":
				var t c18Own
				json.Unmarshal(task, &t)
				c18Images = 0
				v := runC18Own(&t)
				return explore.MustJSON(map[string]any{"viol": v, "images": c18Images})
			case probe.Scenario != "":
				return dfsW(task)
			}
			return seqW(task)
		},
		Main: func(c *explore.Ctx) {
			quick := c.Tier == "quick"
			// ownership scripts
			pool := explore.NewPool(0, "worker", "C18")
			var raw [][]byte
			var metas []c18Own
			for _, st := range []string{"vstor", "mem", "file"} {
				for _, sc := range genSeqs([]string{"open", "close"}, 4) {
					if len(sc) == 0 {
						continue
					}
					m := c18Own{Kind: "own", Stor: st, Script: sc}
					metas = append(metas, m)
					raw = append(raw, explore.MustJSON(m))
				}
			}
			{
				m := c18Own{Kind: "own", Stor: "file-errclose", Script: []string{"corrupt-compact-close-reopen"}}
				metas = append(metas, m)
				raw = append(raw, explore.MustJSON(m))
			}
			for _, v := range []string{"clean", "stale-current-n", "pending-current-n", "current-bak", "stray-tmp"} {
				m := c18Own{Kind: "own", Stor: "file-ro", Script: []string{v}}
				metas = append(metas, m)
				raw = append(raw, explore.MustJSON(m))
			}
			// read-only open of every crash image of a few histories (orphan tables, unflushed
			// journals, manifests half switched)
			for _, cfg := range []string{"flushy/bytewise", "bigbatch/bytewise", "rot/bytewise"} {
				hs := [][]string{{"Sput:a", "put:b", "trx:+a,+c", "cr", "Sdel:a"}, {"Sput:a", "trd:2", "Sput:b", "put:c"}, {"put:a", "put:b", "big", "Sput:c", "cr"}}
				if !quick {
					hs = append(hs, c04Long...)
				}
				for _, h := range hs {
					m := c18Own{Kind: "own", Stor: "ro-crash", Script: append([]string{cfg}, h...)}
					metas = append(metas, m)
					raw = append(raw, explore.MustJSON(m))
				}
			}
			pool.Map(raw, func(i int, b []byte, err error) {
				var r struct {
					Viol   []string `json:"viol"`
					Images int      `json:"images"`
				}
				if err != nil {
					r.Viol = explore.CrashViol(err)
				} else {
					json.Unmarshal(b, &r)
				}
				c.Add("ownership_scripts", 1)
				c.Add("evaluations", 1)
				c.Add("readonly_crash_images", r.Images)
				for _, v := range r.Viol {
					c.Report(&explore.Violation{Property: "C18", Sig: map[string]string{"check": "ownership", "stor": metas[i].Stor, "effect": v}, Detail: map[string]any{"task": metas[i], "violation": v}})
				}
			})
			pool.Close()
			// calls racing Close
			drivers := []concParams{
				{Name: "put-vs-close", Cfg: "roomy/bytewise", Clients: [][]string{{"put:a"}, {"close"}}, QB: 3, TB: 4, SQ: 1, ST: 1},
				{Name: "get-vs-close", Cfg: "flushy/bytewise", Pre: []string{"put:a", "q"}, Clients: [][]string{{"get:a"}, {"close"}}, QB: 2, TB: 3, SQ: 1, ST: 1},
				{Name: "snapshot-vs-close", Cfg: "roomy/bytewise", Pre: []string{"put:a"}, Clients: [][]string{{"snapget:a"}, {"close"}}, QB: 3, TB: 4, SQ: 1, ST: 1},
				{Name: "transaction-vs-close", Cfg: "bigbatch/bytewise", Clients: [][]string{{"tr:+a,+b"}, {"close"}}, QB: 2, TB: 3, SQ: 1, ST: 1},
				// Close with an open transaction while a recycled write buffer sits in the buffer pool
				// (a transaction iterator released after the transaction flushed internally)
				{Name: "close-with-open-transaction-and-pooled-buffer", Cfg: "wide/bytewise", Pre: []string{"otr", "tput:a", "tput:b", "titer", "tput:a", "reliter"}, Clients: [][]string{{"close"}, {"get:a"}}, QB: 2, TB: 3},
				{Name: "close-after-flush-with-pooled-buffer", Cfg: "wide/bytewise", Pre: []string{"putM:a", "putM:b", "putM:c", "q", "otr", "tput:a"}, Clients: [][]string{{"close"}, {"get:a"}}, QB: 2, TB: 3},
				{Name: "compact-vs-close", Cfg: "flushy/bytewise", Pre: []string{"put:a", "put:b"}, Clients: [][]string{{"cr"}, {"close"}}, QB: 2, TB: 2},
			}
			runConcChecks(c, "C18", drivers, 2, 0)
			// sequence search
			d := 4
			if !quick {
				d = 5
			}
			var specs []seqSpec
			for _, cfg := range []string{"flushy/bytewise", "default/bytewise", "bigbatch/bytewise"} {
				specs = append(specs, seqSpec{Cfg: cfg, Alpha: c18Alpha, Depth: d, Checks: "db,views", Mode: "closed"})
				specs = append(specs, seqSpec{Cfg: cfg, Alpha: c18Alpha, Depth: d, Checks: "db,views", Mode: "readonly"})
			}
			runSpecs(c, "C18", specs,
				"BFS over DB operation sequences (writes, batch, CompactRange, Quiesce, snapshots, open transaction); in every reached state, mode closed: Close, then 30 method calls on the DB, every live snapshot and the open transaction, second Close -> errors only and zero storage operations after Close returned, storage lock released; then ReadOnly Open on the same recording storage in audit mode -> contents equal the model incl. journal-only data, writes ErrReadOnly, zero mutating storage operations, then a normal reopen agrees; mode readonly: SetReadOnly, writes ErrReadOnly, reads equal the model, after settling (virtual time) no mutating storage operation; ownership: all scripts of <=4 steps over {Open, Close} on vstor, MemStorage and OpenFile(tmp dir): a second Open while owned fails, Open after Close succeeds; plus schedule search (deviation bound) of single calls racing Close",
				[]string{"file-lock behaviour across OS processes is not exercised (single process)", "iterators held across Close are outside the documented contract and are not exercised"})
		},
	})
}
