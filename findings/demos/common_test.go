// Plain, un-instrumented demonstrations of the genuine defects the checks found. They use
// only the public API of the real package (no scheduler, no overlay). Each test fails on
// the tree before the corresponding "fix:" commit and passes after it.
package findings

import (
	"bytes"
	"sync"
	"testing"

	"github.com/syndtr/goleveldb/leveldb"
	"github.com/syndtr/goleveldb/leveldb/opt"
	"github.com/syndtr/goleveldb/leveldb/storage"
	"github.com/syndtr/goleveldb/leveldb/util"
)

func flushy() *opt.Options {
	return &opt.Options{
		WriteBuffer:            1,
		CompactionL0Trigger:    2,
		CompactionTotalSize:    100,
		CompactionTableSize:    40,
		BlockSize:              16,
		BlockRestartInterval:   2,
		Compression:            opt.NoCompression,
		DisableSeeksCompaction: true,
	}
}

type shortlex struct{}

func (shortlex) Name() string { return "demo.shortlex" }
func (shortlex) Compare(a, b []byte) int {
	if len(a) != len(b) {
		if len(a) < len(b) {
			return -1
		}
		return 1
	}
	return bytes.Compare(a, b)
}
func (shortlex) Separator(dst, a, b []byte) []byte { return nil }
func (shortlex) Successor(dst, b []byte) []byte    { return nil }

func mustGet(t *testing.T, db *leveldb.DB, k, want string) {
	t.Helper()
	v, err := db.Get([]byte(k), nil)
	if err != nil {
		t.Fatalf("Get(%q): %v, want %q", k, err, want)
	}
	if string(v) != want {
		t.Fatalf("Get(%q) = %q, want %q", k, v, want)
	}
}

// D1 (C01/C06): overlap search of deeper levels compared user keys with bytes.Compare
// instead of the configured comparer: a live key is lost after a full compaction.
func TestD1_CustomComparerLosesKey(t *testing.T) {
	o := flushy()
	o.Comparer = shortlex{}
	db, err := leveldb.Open(storage.NewMemStorage(), o)
	if err != nil {
		t.Fatal(err)
	}
	defer db.Close()
	put := func(k, v string) {
		if err := db.Put([]byte(k), []byte(v), nil); err != nil {
			t.Fatal(err)
		}
	}
	compact := func() {
		if err := db.CompactRange(util.Range{}); err != nil {
			t.Fatal(err)
		}
	}
	put("b", "v2")
	put("aa", "v3")
	compact() // one deeper-level table holding b..aa (shortlex: b < aa)
	put("c", "v1")
	compact() // c lies inside b..aa under shortlex, but bytes.Compare says it does not
	mustGet(t, db, "c", "v1")
	mustGet(t, db, "b", "v2")
	mustGet(t, db, "aa", "v3")
}

// D2 (C01/C04): a commit that rotates the manifest dropped its own journal/sequence
// numbers: after a clean close and reopen the committed batch is gone.
func TestD2_ManifestRotationLosesCommit(t *testing.T) {
	o := flushy()
	o.MaxManifestFileSize = 1
	stor := storage.NewMemStorage()
	db, err := leveldb.Open(stor, o)
	if err != nil {
		t.Fatal(err)
	}
	b := new(leveldb.Batch)
	b.Put([]byte("a"), []byte("v1"))
	b.Delete([]byte("b"))
	if err := db.Write(b, nil); err != nil {
		t.Fatal(err)
	}
	mustGet(t, db, "a", "v1")
	if err := db.Close(); err != nil {
		t.Fatal(err)
	}
	db, err = leveldb.Open(stor, o)
	if err != nil {
		t.Fatal(err)
	}
	defer db.Close()
	mustGet(t, db, "a", "v1")
}

// gate blocks the first table Create until opened, so that the flush of a frozen write
// buffer is still pending when the next call arrives (the schedule D3 needs).
type gate struct {
	storage.Storage
	mu     sync.Mutex
	armed  bool
	opened chan struct{}
}

func (g *gate) Create(fd storage.FileDesc) (storage.Writer, error) {
	g.mu.Lock()
	wait := g.armed && fd.Type == storage.TypeTable
	if wait {
		g.armed = false
	}
	g.mu.Unlock()
	if wait {
		<-g.opened
	}
	return g.Storage.Create(fd)
}
