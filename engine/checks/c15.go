package checks

import (
	"bytes"
	"encoding/json"
	"fmt"

	"github.com/syndtr/goleveldb/leveldb"
	"github.com/syndtr/goleveldb/leveldb/comparer"
	"github.com/syndtr/goleveldb/leveldb/opt"
	"github.com/syndtr/goleveldb/leveldb/storage"
	"github.com/syndtr/goleveldb/leveldb/table"
	"verif/explore"
	"verif/harness"
)

// C15 — internal key order and index-key shortening. Exhaustive over a finite universe of
// internal keys (user keys = all strings over {0x00,'a',0xff} up to length 3; sequence numbers
// {0,1,2,2^56-1}; both kinds) for five comparers: order laws on all pairs and triples,
// user-key-major / newest-first agreement, probe placement, separator/successor laws on all
// ordered pairs (user and internal comparers), and index routing through one-entry-per-block
// tables built from every subset of up to 4 keys of a sub-universe.

type c15Task struct {
	Cmp    string `json:"cmp"`
	Kind   string `json:"kind"` // pairs | triples | sep | route
	MaxLen int    `json:"maxlen"`
	From   int    `json:"from"`
	To     int    `json:"to"`
	// Adj selects the second universe: user keys over {0x00,0x01,'a','b',0xfe,0xff} up to
	// length 2 - bytes that are neighbours of each other and of the 0xff ceiling, the inputs on
	// which "can this byte be incremented and still stay below the limit" flips.
	Adj bool `json:"adj,omitempty"`
}

type c15Result struct {
	Evals int
	Viol  []string
}

func c15Users(maxLen int) [][]byte { return c15UsersOver([]byte{0x00, 'a', 0xff}, maxLen) }

var c15AdjAlpha = []byte{0x00, 0x01, 'a', 'b', 0xfe, 0xff}

func c15UsersOver(alpha []byte, maxLen int) [][]byte {
	out := [][]byte{{}}
	level := [][]byte{{}}
	for l := 1; l <= maxLen; l++ {
		var next [][]byte
		for _, p := range level {
			for _, c := range alpha {
				next = append(next, append(append([]byte{}, p...), c))
			}
		}
		out = append(out, next...)
		level = next
	}
	return out
}

var c15Seqs = []uint64{0, 1, 2, 1<<56 - 1}

type ik struct {
	u    []byte
	seq  uint64
	kind int
	k    []byte
}

func c15Keys(maxLen int) []ik { return c15KeysOf(c15Users(maxLen)) }

func c15KeysOf(users [][]byte) []ik {
	var out []ik
	for _, u := range users {
		for _, s := range c15Seqs {
			for _, kd := range []int{leveldb.VerifKeyTypeDel, leveldb.VerifKeyTypeVal} {
				out = append(out, ik{u, s, kd, leveldb.VerifMakeIKey(u, s, kd)})
			}
		}
	}
	return out
}

func sign(x int) int {
	switch {
	case x < 0:
		return -1
	case x > 0:
		return 1
	}
	return 0
}

func runC15(t *c15Task) *c15Result {
	res := &c15Result{}
	ucmp := harness.Comparers[t.Cmp]
	icmp := leveldb.VerifIComparerFull(ucmp)
	keys := c15Keys(t.MaxLen)
	if t.Adj {
		keys = c15KeysOf(c15UsersOver(c15AdjAlpha, t.MaxLen))
	}
	bad := func(f string, a ...any) bool {
		res.Viol = append(res.Viol, t.Cmp+": "+fmt.Sprintf(f, a...))
		return len(res.Viol) >= 3
	}
	to := t.To
	if to > len(keys) {
		to = len(keys)
	}
	switch t.Kind {
	case "pairs":
		for i := t.From; i < to; i++ {
			a := keys[i]
			for _, b := range keys {
				res.Evals++
				c := sign(icmp.Compare(a.k, b.k))
				if c != -sign(icmp.Compare(b.k, a.k)) {
					if bad("antisymmetry fails for %q / %q", a.k, b.k) {
						return res
					}
				}
				if (c == 0) != bytes.Equal(a.k, b.k) {
					if bad("Compare(%q,%q)=0 disagrees with byte equality", a.k, b.k) {
						return res
					}
				}
				// user-key-major, then newest (higher seq, then higher kind) first
				want := sign(ucmp.Compare(a.u, b.u))
				if want == 0 {
					na, nb := a.seq<<8|uint64(a.kind), b.seq<<8|uint64(b.kind)
					switch {
					case na > nb:
						want = -1
					case na < nb:
						want = 1
					}
				}
				if c != want {
					if bad("Compare(%q,%q)=%d, user-key-major/newest-first order says %d", a.k, b.k, c, want) {
						return res
					}
				}
				// probe placement: probe(k, s) sorts after every entry of k newer than s and
				// not after any entry of k with seq <= s
				if bytes.Equal(a.u, b.u) {
					probe := leveldb.VerifMakeIKey(a.u, a.seq, leveldb.VerifKeyTypeSeek)
					pc := sign(icmp.Compare(probe, b.k))
					if b.seq > a.seq && pc <= 0 {
						if bad("probe(%q,%d) does not sort after newer entry seq %d", a.u, a.seq, b.seq) {
							return res
						}
					}
					if b.seq <= a.seq && pc > 0 {
						if bad("probe(%q,%d) sorts after visible entry seq %d kind %d", a.u, a.seq, b.seq, b.kind) {
							return res
						}
					}
				}
			}
		}
	case "triples":
		n := len(keys)
		// precompute the comparison matrix once per task
		m := make([]int8, n*n)
		for i := range keys {
			for j := range keys {
				m[i*n+j] = int8(sign(icmp.Compare(keys[i].k, keys[j].k)))
			}
		}
		for i := t.From; i < to; i++ {
			for j := 0; j < n; j++ {
				if m[i*n+j] > 0 {
					continue
				}
				for k := 0; k < n; k++ {
					res.Evals++
					if m[j*n+k] <= 0 && m[i*n+k] > 0 {
						if bad("transitivity fails: %q <= %q <= %q but first > third", keys[i].k, keys[j].k, keys[k].k) {
							return res
						}
					}
				}
			}
		}
	case "sep":
		users := c15Users(t.MaxLen)
		if t.Adj {
			users = c15UsersOver(c15AdjAlpha, t.MaxLen)
		}
		for i := t.From; i < to; i++ {
			a := keys[i]
			if s := icmp.Successor(nil, a.k); s != nil {
				res.Evals++
				if icmp.Compare(s, a.k) < 0 {
					if bad("internal Successor(%q) = %q is smaller", a.k, s) {
						return res
					}
				}
			}
			for _, b := range keys {
				if icmp.Compare(a.k, b.k) >= 0 {
					continue
				}
				res.Evals++
				s := icmp.Separator(nil, a.k, b.k)
				if s == nil {
					continue
				}
				if icmp.Compare(a.k, s) > 0 || icmp.Compare(s, b.k) >= 0 {
					if bad("internal Separator(%q,%q) = %q violates a <= sep < b", a.k, b.k, s) {
						return res
					}
				}
			}
		}
		if t.From == 0 {
			// the user comparers' own contract (a valid comparer is a precondition of the rest)
			for _, a := range users {
				if s := ucmp.Successor(nil, a); s != nil && ucmp.Compare(s, a) < 0 {
					bad("user Successor(%q) = %q is smaller", a, s)
				}
				for _, b := range users {
					res.Evals++
					if ucmp.Compare(a, b) >= 0 {
						continue
					}
					if s := ucmp.Separator(nil, a, b); s != nil && (ucmp.Compare(a, s) > 0 || ucmp.Compare(s, b) >= 0) {
						if bad("user Separator(%q,%q) = %q violates a <= sep < b", a, b, s) {
							return res
						}
					}
				}
			}
		}
	case "route":
		// one entry per block, index keys are separators: every stored key must be found
		sub := c15RouteUniverse(ucmp, icmp, t.Adj)
		n := len(sub)
		idx := 0
		var rec func(start int, chosen []int)
		o := &opt.Options{Comparer: icmp, BlockSize: 1, BlockRestartInterval: 1, Compression: opt.NoCompression}
		rec = func(start int, chosen []int) {
			if len(res.Viol) > 0 {
				return
			}
			if len(chosen) > 0 {
				if idx >= t.From && idx < t.To {
					res.Evals++
					var buf bytes.Buffer
					w := table.NewWriter(&buf, o, nil, 0)
					for _, c := range chosen {
						if err := w.Append(sub[c], []byte{byte(c)}); err != nil {
							bad("writer rejected sorted keys: %v", err)
							return
						}
					}
					w.Close()
					r, err := table.NewReader(bytes.NewReader(buf.Bytes()), int64(buf.Len()), storage.FileDesc{Type: storage.TypeTable, Num: 1}, nil, nil, o)
					if err != nil {
						bad("reader: %v", err)
						return
					}
					for _, c := range chosen {
						rk, rv, err := r.Find(sub[c], false, nil)
						if err != nil || !bytes.Equal(rk, sub[c]) || len(rv) != 1 || rv[0] != byte(c) {
							bad("table of %d one-entry blocks: Find(%q) = %q,%v err=%v", len(chosen), sub[c], rk, rv, err)
							break
						}
						// the DB's lookup probe: (ukey, seq, seek) must land on this entry when it is the newest visible one
					}
					r.Release()
				}
				idx++
			}
			if len(chosen) == 4 {
				return
			}
			for i := start; i < n; i++ {
				rec(i+1, append(chosen, i))
			}
		}
		rec(0, nil)
	}
	return res
}

// c15RouteUniverse: 24 internal keys sorted under icmp (6 user keys x 2 seqs x 2 kinds).
func c15RouteUniverse(ucmp comparer.Comparer, icmp comparer.Comparer, adj bool) [][]byte {
	us := [][]byte{{}, {'a'}, {'a', 0x00}, {'a', 'a'}, {'a', 0xff}, {0xff, 0xff}}
	if adj {
		// neighbouring first bytes, a 0xff tail before a neighbour, and the 0xfe/0xff ceiling
		us = [][]byte{{'a'}, {'a', 0xff}, {'b'}, {'b', 0x00}, {0xfe}, {0xff}}
	}
	var ks [][]byte
	for _, u := range us {
		for _, s := range []uint64{1, 2} {
			for _, kd := range []int{leveldb.VerifKeyTypeDel, leveldb.VerifKeyTypeVal} {
				ks = append(ks, leveldb.VerifMakeIKey(u, s, kd))
			}
		}
	}
	// sort under icmp
	for i := 1; i < len(ks); i++ {
		for j := i; j > 0 && icmp.Compare(ks[j-1], ks[j]) > 0; j-- {
			ks[j-1], ks[j] = ks[j], ks[j-1]
		}
	}
	return ks
}

func init() {
	register(&Check{
		ID:    "C15",
		Level: "model_checking",
		Worker: func(task []byte) []byte {
			var t c15Task
			if err := json.Unmarshal(task, &t); err != nil {
				return explore.MustJSON(c15Result{Viol: []string{"bad task"}})
			}
			return explore.MustJSON(runC15(&t))
		},
		Main: func(c *explore.Ctx) {
			pool := explore.NewPool(0, "worker", "C15")
			defer pool.Close()
			quick := c.Tier == "quick"
			maxLen := 4
			tripleLen := 4
			adjLen := 3
			_ = quick
			nk := len(c15Keys(maxLen))
			nt := len(c15Keys(tripleLen))
			nadj := len(c15KeysOf(c15UsersOver(c15AdjAlpha, adjLen)))
			var tasks []c15Task
			for _, k := range harness.ComparerNames {
				for from := 0; from < nk; from += 40 {
					tasks = append(tasks, c15Task{Cmp: k, Kind: "pairs", MaxLen: maxLen, From: from, To: from + 40})
					tasks = append(tasks, c15Task{Cmp: k, Kind: "sep", MaxLen: maxLen, From: from, To: from + 40})
				}
				for from := 0; from < nadj; from += 40 {
					tasks = append(tasks, c15Task{Cmp: k, Kind: "pairs", MaxLen: adjLen, From: from, To: from + 40, Adj: true})
					tasks = append(tasks, c15Task{Cmp: k, Kind: "sep", MaxLen: adjLen, From: from, To: from + 40, Adj: true})
				}
				step := 8
				for from := 0; from < nt; from += step {
					tasks = append(tasks, c15Task{Cmp: k, Kind: "triples", MaxLen: tripleLen, From: from, To: from + step})
				}
				for from := 0; from < 12951; from += 1000 {
					tasks = append(tasks, c15Task{Cmp: k, Kind: "route", From: from, To: from + 1000})
					tasks = append(tasks, c15Task{Cmp: k, Kind: "route", From: from, To: from + 1000, Adj: true})
				}
			}
			done := 0
			exh := true
			const chunk = 512
			for start := 0; start < len(tasks); start += chunk {
				if c.OutOfTime() {
					exh = false
					break
				}
				end := start + chunk
				if end > len(tasks) {
					end = len(tasks)
				}
				var raw [][]byte
				for _, t := range tasks[start:end] {
					raw = append(raw, explore.MustJSON(t))
				}
				pool.Map(raw, func(i int, b []byte, err error) {
					t := tasks[start+i]
					var r c15Result
					if err != nil {
						r.Viol = explore.CrashViol(err)
					} else {
						json.Unmarshal(b, &r)
					}
					done++
					c.Add("transitions", r.Evals)
					c.Add("evals_"+t.Kind, r.Evals)
					for _, v := range r.Viol {
						c.Report(&explore.Violation{Property: "C15", Sig: map[string]string{"check": "keyorder", "kind": t.Kind, "comparer": t.Cmp, "effect": v}, Detail: map[string]any{"task": t, "violation": v}})
					}
				})
			}
			c.Coverage["states"] = (nk + nadj) * len(harness.ComparerNames)
			c.Coverage["traces_validated_against_impl"] = c.Get("evals_route")
			c.Coverage["internal_keys"] = nk
			c.Coverage["internal_keys_for_triples"] = nt
			c.Coverage["internal_keys_adjacent_bytes_universe"] = nadj
			c.Coverage["comparers"] = harness.ComparerNames
			c.SetExhaustive(exh && done == len(tasks))
			c.Sample(map[string]any{"user_keys": []string{"", "\\x00", "a", "\\xff", "\\x00a", "a\\xff\\xff"}, "seqs": c15Seqs, "kinds": []string{"del", "val"}})
			c.Coverage["rule"] = "states = internal keys x comparers (all strings over {0x00,'a',0xff} of length <=4 x seq {0,1,2,2^56-1} x {del,val} = 968 keys, 5 comparers; plus, for the pair and separator laws, a second universe of all strings over {0x00,0x01,'a','b',0xfe,0xff} of length <=3 (2072 keys) - neighbouring bytes and the 0xff ceiling, where shortening flips between possible and impossible); transitions = individual law evaluations: antisymmetry / identity / user-key-major newest-first / probe placement on all ordered pairs, transitivity on all triples of the 968-key universe, a<=Separator(a,b)<b and Successor(b)>=b on all ordered pairs for the internal and the user comparers, and Find of every stored key in every table of <=4 one-entry blocks over two 24-key sub-universes, one with neighbouring bytes (index keys are the shortened separators)"
			c.Assume = []string{"the five comparers satisfy the documented Comparer contract (their Separator/Successor laws are checked too)"}
		},
	})
}
