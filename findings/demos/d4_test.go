package findings

import (
	"errors"
	"sync"
	"testing"

	"github.com/syndtr/goleveldb/leveldb"
	"github.com/syndtr/goleveldb/leveldb/opt"
	"github.com/syndtr/goleveldb/leveldb/storage"
)

// faulty fails chosen operations of a wrapped storage.
type faulty struct {
	storage.Storage
	mu           sync.Mutex
	failSync     map[storage.FileType]int // number of Syncs to fail per file type
	failRemoveOf storage.FileType         // Remove of this type always fails while armed
	failCreate   map[storage.FileType]int // number of Creates to fail per file type
	armed        bool
}

var errInjected = errors.New("injected fault")

type faultyWriter struct {
	storage.Writer
	f  *faulty
	fd storage.FileDesc
}

func (w *faultyWriter) Sync() error {
	w.f.mu.Lock()
	n := w.f.failSync[w.fd.Type]
	if w.f.armed && n > 0 {
		w.f.failSync[w.fd.Type] = n - 1
		w.f.mu.Unlock()
		return errInjected
	}
	w.f.mu.Unlock()
	return w.Writer.Sync()
}

func (f *faulty) Create(fd storage.FileDesc) (storage.Writer, error) {
	f.mu.Lock()
	if n := f.failCreate[fd.Type]; f.armed && n > 0 {
		f.failCreate[fd.Type] = n - 1
		f.mu.Unlock()
		return nil, errInjected
	}
	f.mu.Unlock()
	w, err := f.Storage.Create(fd)
	if err != nil {
		return nil, err
	}
	return &faultyWriter{w, f, fd}, nil
}

func (f *faulty) Remove(fd storage.FileDesc) error {
	f.mu.Lock()
	fail := f.armed && fd.Type == f.failRemoveOf
	f.mu.Unlock()
	if fail {
		return errInjected
	}
	return f.Storage.Remove(fd)
}

// D4 (C08): a failed journal Sync left the sequence number unchanged although the record had
// reached the journal; the next (acknowledged) write reused it and was skipped by recovery,
// while the write that had reported an error came back.
func TestD4_AckedWriteLostAfterFailedJournalSync(t *testing.T) {
	f := &faulty{Storage: storage.NewMemStorage(), failSync: map[storage.FileType]int{}}
	db, err := leveldb.Open(f, flushy())
	if err != nil {
		t.Fatal(err)
	}
	f.mu.Lock()
	f.armed = true
	f.failSync[storage.TypeJournal] = 1
	f.mu.Unlock()
	sync := &opt.WriteOptions{Sync: true}
	if err := db.Put([]byte("a"), []byte("v1"), sync); err == nil {
		t.Fatal("expected the injected sync failure to surface")
	}
	if err := db.Put([]byte("a"), []byte("v2"), sync); err != nil {
		t.Fatal(err)
	}
	mustGet(t, db, "a", "v2")
	if err := db.Close(); err != nil {
		t.Fatal(err)
	}
	db, err = leveldb.Open(f, flushy())
	if err != nil {
		t.Fatal(err)
	}
	defer db.Close()
	mustGet(t, db, "a", "v2") // the acknowledged write
}

// D13 (C08): when a commit rotated the manifest and removing the *old* manifest failed, the
// commit was reported as failed although the new manifest (with the edit) was already
// current. Transaction.Commit then fails, the caller discards, the tables are deleted and
// the next Open reports missing files.
func TestD13_OldManifestRemoveFailureFailsCommit(t *testing.T) {
	f := &faulty{Storage: storage.NewMemStorage(), failSync: map[storage.FileType]int{}, failRemoveOf: storage.TypeManifest}
	o := flushy()
	o.MaxManifestFileSize = 1
	db, err := leveldb.Open(f, o)
	if err != nil {
		t.Fatal(err)
	}
	f.mu.Lock()
	f.armed = true
	f.mu.Unlock()
	tr, err := db.OpenTransaction()
	if err != nil {
		t.Fatal(err)
	}
	if err := tr.Put([]byte("a"), []byte("v1"), nil); err != nil {
		t.Fatal(err)
	}
	if err := tr.Commit(); err != nil {
		// documented reaction to a failed commit
		tr.Discard()
	}
	f.mu.Lock()
	f.armed = false
	f.mu.Unlock()
	if err := db.Close(); err != nil {
		t.Logf("close: %v", err)
	}
	db, err = leveldb.Open(f, o)
	if err != nil {
		t.Fatalf("reopen: %v", err)
	}
	db.Close()
}
