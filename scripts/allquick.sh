#!/bin/bash
# usage: allquick.sh [tier] — runs every registered check in /verif against /repo, one after the other, summary at the end
cd "$(dirname "$0")/.."
TIER="${1:-quick}"
for id in C01 C02 C03 C04 C05 C06 C07 C08 C09 C10 C11 C12 C13 C14 C15 C16 C17 C18 C19 C20; do
  s=$(date +%s)
  scripts/check.sh $id $TIER > /tmp/allquick.$id.log 2>&1; rc=$?
  echo "$id rc=$rc $(( $(date +%s)-s ))s $(grep -a -E "^C[0-9]+ (quick|thorough):" /tmp/allquick.$id.log | tail -1) viol=$(grep -a -c '^VIOLATION' /tmp/allquick.$id.log)"
done
