package checks

import (
	"encoding/json"
	"fmt"
	"hash/fnv"
	"sort"
	"strings"

	"github.com/syndtr/goleveldb/leveldb/cache"
	"verif/explore"
	"verif/vsched"
	"verif/vsync"
)

// C17 — the shared cache. Instrumented values record construction, finalisation and
// outstanding handles; 2-3 goroutines issue Get/Release/Delete/Evict/EvictNS/EvictAll/
// SetCapacity/Close on colliding keys of the real cache.Cache + LRU under every schedule
// within the deviation bound (atomics are scheduling points, so the reference-count races
// are explored). A second family pre-loads the map across its grow threshold so that the
// concurrent operations run against a resizing table.

type c17Params struct {
	Name     string     `json:"name"`
	Capacity int        `json:"capacity"` // -1: nil cacher
	Preload  int        `json:"preload"`  // nodes inserted (and released) before the window
	PreKeys  []int      `json:"prekeys"`  // keys Get+Released before the window (resident in LRU)
	PreHold  []int      `json:"prehold"`  // keys whose handle is taken before the window and shared by the clients ("rels:i")
	Clients  [][]string `json:"clients"`
	QB, TB   int
	// Stmt: scheduling points before every statement of package cache (the binary is built
	// with vrewrite -stmt leveldb/cache); off: points at synchronisation operations only
	Stmt bool `json:"stmt"`
}

type cval struct {
	id       int
	key      uint64
	w        *c17World
	released int
	forced   bool
}

func (v *cval) Release() {
	v.released++
	w := v.w
	if v.released > 1 {
		w.bad("value #%d of key %d finalised %d times", v.id, v.key, v.released)
	}
	if w.out[v] != 0 && !w.forceClosed {
		w.bad("value #%d of key %d finalised while %d handle(s) are outstanding", v.id, v.key, w.out[v])
	}
	if w.live[v.key] == v {
		delete(w.live, v.key)
	}
	w.finalised++
}

type c17World struct {
	c           *cache.Cache
	live        map[uint64]*cval // constructed and not yet finalised, per key
	out         map[*cval]int    // handles handed to clients and not yet released
	viol        []string
	nvals       int
	finalised   int
	forceClosed bool
	closed      bool
	obs         []string
	delCalls    map[string]int
	deleted     []uint64 // private keys (>= 1000) deleted by a client
}

func (w *c17World) bad(f string, a ...any) {
	if len(w.viol) < 5 {
		w.viol = append(w.viol, fmt.Sprintf(f, a...))
	}
}

func (w *c17World) get(who string, key uint64, hold *[]*cache.Handle) {
	h := w.c.Get(0, key, func() (int, cache.Value) {
		if lv := w.live[key]; lv != nil {
			w.bad("constructor for key %d runs while value #%d of that key is still live", key, lv.id)
		}
		w.nvals++
		v := &cval{id: w.nvals, key: key, w: w}
		w.live[key] = v
		return 1, v
	})
	if h == nil {
		w.obs = append(w.obs, who+":get"+fmt.Sprint(key)+"=nil")
		if !w.closed {
			w.bad("%s: Get(%d) returned nil on an open cache", who, key)
		}
		return
	}
	v, _ := h.Value().(*cval)
	if v == nil {
		if !w.forceClosed {
			w.bad("%s: Get(%d) returned a handle without value", who, key)
		}
		h.Release()
		return
	}
	if v.released > 0 && !w.forceClosed {
		w.bad("%s: Get(%d) handed out value #%d which is already finalised", who, key, v.id)
	}
	if lv := w.live[key]; lv != v && !w.forceClosed {
		w.bad("%s: Get(%d) handed out value #%d but the live value of the key is %v", who, key, v.id, lv)
	}
	w.out[v]++
	w.obs = append(w.obs, fmt.Sprintf("%s:get%d=#%d", who, key, v.id))
	if hold != nil {
		*hold = append(*hold, h)
		return
	}
	// use, then release
	vsched.Yield()
	if v.released > 0 && !w.forceClosed {
		w.bad("%s: value #%d of key %d finalised while its handle is held", who, v.id, key)
	}
	w.out[v]--
	h.Release()
}

func c17Exec(p *c17Params, prefix []int) *explore.Exec {
	w := &c17World{live: map[uint64]*cval{}, out: map[*cval]int{}, delCalls: map[string]int{}}
	vsched.StmtEnabled = p.Stmt
	defer func() { vsched.StmtEnabled = true }()
	r := vsched.Run(vsched.Options{Prefix: prefix}, func() {
		var cacher cache.Cacher
		if p.Capacity >= 0 {
			cacher = cache.NewLRU(p.Capacity)
		}
		w.c = cache.NewCache(cacher)
		for i := 0; i < p.Preload; i++ {
			w.get("pre", uint64(1000+i), nil)
		}
		for _, k := range p.PreKeys {
			w.get("pre", uint64(k), nil)
		}
		var shared []*cache.Handle
		var sharedVal []*cval // the value behind each shared handle (the handle forgets it once released)
		var sharedReleased []bool
		for _, k := range p.PreHold {
			var hs []*cache.Handle
			w.get("pre", uint64(k), &hs)
			for _, h := range hs {
				v, _ := h.Value().(*cval)
				shared = append(shared, h)
				sharedVal = append(sharedVal, v)
				sharedReleased = append(sharedReleased, false)
			}
		}
		var wg vsync.WaitGroup
		held := make([][]*cache.Handle, len(p.Clients))
		vsched.Arm()
		for ci, ops := range p.Clients {
			ci, ops := ci, ops
			wg.Add(1)
			vsched.GoNamed(fmt.Sprintf("c%d", ci), func() {
				defer wg.Done()
				who := fmt.Sprintf("c%d", ci)
				for oi, op := range ops {
					t, arg := op, 0
					if i := strings.IndexByte(op, ':'); i >= 0 {
						t = op[:i]
						fmt.Sscanf(op[i+1:], "%d", &arg)
					}
					switch t {
					case "get":
						w.get(who, uint64(arg), nil)
					case "hold":
						w.get(who, uint64(arg), &held[ci])
					case "fail":
						// a constructor that fails (returns no value), like a table that cannot be opened
						if h := w.c.Get(0, uint64(arg), func() (int, cache.Value) { return 0, nil }); h != nil {
							v, _ := h.Value().(*cval)
							if v == nil {
								w.bad("%s: Get(%d) with a failing constructor returned a handle without value", who, arg)
							} else {
								// another client's value: a normal hit
								if v.released > 0 && !w.forceClosed {
									w.bad("%s: Get(%d) handed out value #%d which is already finalised", who, arg, v.id)
								}
								w.out[v]++
								w.obs = append(w.obs, fmt.Sprintf("%s:fail%d=#%d", who, arg, v.id))
								vsched.Yield()
								w.out[v]--
							}
							h.Release()
						} else {
							w.obs = append(w.obs, fmt.Sprintf("%s:fail%d=nil", who, arg))
						}
					case "peek":
						// a lookup that must not create the entry (DontFillCache reads)
						if h := w.c.Get(0, uint64(arg), nil); h != nil {
							v, _ := h.Value().(*cval)
							if v == nil {
								if !w.forceClosed {
									w.bad("%s: get-only Get(%d) returned a handle without value", who, arg)
								}
							} else {
								if v.released > 0 && !w.forceClosed {
									w.bad("%s: get-only Get(%d) handed out value #%d which is already finalised", who, arg, v.id)
								}
								w.out[v]++
								w.obs = append(w.obs, fmt.Sprintf("%s:peek%d=#%d", who, arg, v.id))
								vsched.Yield()
								if v.released > 0 && !w.forceClosed {
									w.bad("%s: value #%d of key %d finalised while its handle is held", who, v.id, arg)
								}
								w.out[v]--
							}
							h.Release()
						} else {
							w.obs = append(w.obs, fmt.Sprintf("%s:peek%d=nil", who, arg))
						}
					case "del":
						name := fmt.Sprintf("%s.%d", who, oi)
						key := uint64(arg)
						existed := w.live[key] != nil && w.live[key].released == 0
						// the entry this Delete can refer to holds a value constructed before the call
						// started; a later residency of the same key is another entry (its handles do
						// not hold the callback back)
						before := w.nvals
						delOK := w.c.Delete(0, key, func() {
							w.delCalls[name]++
							if w.delCalls[name] > 1 {
								w.bad("delete callback %s ran %d times", name, w.delCalls[name])
							}
							for v, n := range w.out {
								if v.key == key && v.id <= before && n > 0 && v.released == 0 && !w.forceClosed {
									w.bad("delete callback of key %d ran while a handle to value #%d is outstanding", key, v.id)
								}
							}
						})
						w.delCalls[name] += 0
						// a key no other client touches (pre-loaded >= 1000): the answer is determined
						if key >= 1000 {
							if delOK != existed {
								w.bad("%s: Delete(%d) = %v although the entry %s", who, key, delOK, map[bool]string{true: "exists", false: "does not exist"}[existed])
							}
							w.deleted = append(w.deleted, key)
						}
					case "rels":
						// several goroutines release the SAME handle ("safe to call release multiple
						// times"): it gives up exactly one reference
						h := shared[arg]
						if !sharedReleased[arg] {
							sharedReleased[arg] = true
							if v := sharedVal[arg]; v != nil {
								w.out[v]--
							}
						}
						h.Release()
					case "evict":
						w.c.Evict(0, uint64(arg))
					case "evictns":
						w.c.EvictNS(0)
					case "evictall":
						w.c.EvictAll()
					case "cap":
						w.c.SetCapacity(arg)
					case "close":
						w.closed = true
						w.c.Close(false)
					case "closef":
						w.closed = true
						w.forceClosed = true
						w.c.Close(true)
					default:
						panic("unknown op " + op)
					}
				}
			})
		}
		wg.Wait()
		vsched.Disarm()
		// capacity: with no client handle out, the retained charge must fit
		anyHeld := false
		for _, hs := range held {
			if len(hs) > 0 {
				anyHeld = true
			}
		}
		if !anyHeld && !w.closed && p.Capacity >= 0 {
			if sz, cp := w.c.Size(), w.c.Capacity(); sz > cp {
				w.bad("no handle is out but the cache retains charge %d > capacity %d", sz, cp)
			}
		}
		// a deleted entry is gone once its handles are released: not retained, not handed out again
		for i, h := range shared {
			if !sharedReleased[i] {
				if v := sharedVal[i]; v != nil {
					w.out[v]--
				}
				h.Release()
			}
		}
		// release held handles, then close: everything constructed must be finalised exactly once
		for _, hs := range held {
			for _, h := range hs {
				if v, _ := h.Value().(*cval); v != nil {
					w.out[v]--
				}
				h.Release()
			}
		}
		if !w.closed {
			for _, k := range w.deleted {
				if lv := w.live[k]; lv != nil && lv.released == 0 {
					w.bad("key %d was deleted and every handle released, but its value #%d is still alive in the cache", k, lv.id)
				}
			}
			w.c.Close(false)
		}
		for name, n := range w.delCalls {
			if n != 1 {
				w.bad("delete callback %s ran %d times", name, n)
			}
		}
		if w.finalised != w.nvals {
			w.bad("%d values constructed, %d finalised after everything was released and the cache closed", w.nvals, w.finalised)
		}
	})
	x := &explore.Exec{Points: r.Points, Verdict: r.Verdict.String(), Diverged: r.Diverged, Steps: r.Steps, Viol: w.viol}
	if r.Diverged != "" {
		return x
	}
	switch r.Verdict {
	case vsched.Completed:
	case vsched.Deadlock, vsched.Hang:
		// liveness is C09's property: recorded as an outcome class, not as a C17 violation
		x.Outcome = "DEADLOCK"
		x.Viol = nil
		x.Blocked = r.Blocked
	default:
		x.Viol = append(x.Viol, fmt.Sprintf("execution ended with %s: %v", r.Verdict, r.PanicValue))
		x.Blocked = append(r.Blocked, r.PanicStack)
	}
	sort.Strings(w.obs)
	h := fnv.New64a()
	for _, o := range w.obs {
		h.Write([]byte(o))
		h.Write([]byte{0})
	}
	x.Hist = h.Sum64()
	if x.Outcome == "" {
		x.Outcome = fmt.Sprintf("vals=%d", w.nvals)
	}
	return x
}

func c17Drivers() []c17Params {
	return []c17Params{
		{Name: "get-get-same-key", Capacity: 1, Clients: [][]string{{"get:1"}, {"get:1"}}, QB: 5, TB: 8},
		{Name: "get-vs-evict", Capacity: 1, PreKeys: []int{1}, Clients: [][]string{{"get:1"}, {"evict:1"}, {"get:1"}}, QB: 3, TB: 5},
		{Name: "get-vs-delete", Capacity: 2, PreKeys: []int{1}, Clients: [][]string{{"hold:1"}, {"del:1"}, {"get:1"}}, QB: 3, TB: 5},
		{Name: "lru-replace", Capacity: 1, PreKeys: []int{1}, Clients: [][]string{{"get:2"}, {"get:1"}, {"get:2"}}, QB: 3, TB: 5},
		{Name: "evictns-vs-get", Capacity: 2, PreKeys: []int{1, 2}, Clients: [][]string{{"evictns"}, {"get:1", "get:2"}}, QB: 3, TB: 5},
		{Name: "evictall-vs-hold", Capacity: 2, PreKeys: []int{1, 2}, Clients: [][]string{{"evictall"}, {"hold:1"}, {"del:2"}}, QB: 3, TB: 5},
		{Name: "setcapacity", Capacity: 2, PreKeys: []int{1, 2}, Clients: [][]string{{"cap:0", "cap:1"}, {"get:1"}, {"get:2"}}, QB: 3, TB: 5},
		{Name: "nil-cacher", Capacity: -1, Clients: [][]string{{"get:1", "get:1"}, {"get:1"}, {"del:1"}}, QB: 3, TB: 5},
		{Name: "close-vs-get", Capacity: 1, PreKeys: []int{1}, Clients: [][]string{{"get:2"}, {"close"}}, QB: 3, TB: 5},
		{Name: "forceclose-vs-hold", Capacity: 1, PreKeys: []int{1}, Clients: [][]string{{"hold:1", "get:2"}, {"closef"}}, QB: 3, TB: 5},
		// two goroutines release one and the same handle while a third client holds another one
		{Name: "shared-handle-release", Capacity: 1, PreHold: []int{1}, Clients: [][]string{{"rels:0"}, {"rels:0"}, {"hold:1", "get:2"}}, QB: 3, TB: 5},
		{Name: "shared-handle-release-nil-cacher", Capacity: -1, PreHold: []int{1}, Clients: [][]string{{"rels:0"}, {"rels:0", "get:1"}, {"hold:1"}}, QB: 3, TB: 5},
		// a constructor that fails while a get-only lookup of the same key is in flight, then a
		// successful fill of that key: it is finalised like any other
		{Name: "failed-fill-vs-peek", Capacity: 2, Clients: [][]string{{"fail:1", "get:1"}, {"peek:1"}}, QB: 4, TB: 6},
		{Name: "failed-fill-vs-peek-vs-delete", Capacity: 2, Clients: [][]string{{"fail:1", "hold:1"}, {"peek:1", "peek:1"}, {"del:1"}}, QB: 2, TB: 4},
		{Name: "failed-fill-vs-peek-nil-cacher", Capacity: -1, Clients: [][]string{{"fail:1", "get:1"}, {"peek:1"}, {"fail:1"}}, QB: 2, TB: 4},
		{Name: "grow-vs-ops", Capacity: 600, Preload: 511, Clients: [][]string{{"get:1"}, {"get:2", "del:1000"}, {"get:1"}}, QB: 2, TB: 3},
		// Delete of a pinned entry while the map is being resized by the other clients' insertions
		{Name: "grow-vs-delete-held", Capacity: 600, Preload: 511, Clients: [][]string{{"hold:1000", "del:1000"}, {"get:1"}, {"get:2"}}, QB: 2, TB: 3},
		{Name: "grow-vs-delete", Capacity: 600, Preload: 510, Clients: [][]string{{"del:1000", "get:3"}, {"get:1", "get:2"}}, QB: 2, TB: 3},
	}
}

func init() {
	register(&Check{
		ID:    "C17",
		Level: "exploration",
		Worker: func(task []byte) []byte {
			var st struct {
				Seq *c17SeqTask `json:"seq"`
			}
			if json.Unmarshal(task, &st) == nil && st.Seq != nil {
				return explore.MustJSON(c17SeqWorker(st.Seq))
			}
			return dfsWorker(map[string]func(json.RawMessage) explore.RunFunc{"cache": func(params json.RawMessage) explore.RunFunc {
				var p c17Params
				json.Unmarshal(params, &p)
				return func(prefix []int) *explore.Exec { return c17Exec(&p, prefix) }
			}})(task)
		},
		Main: func(c *explore.Ctx) {
			pool := explore.NewPool(0, "worker", "C17")
			defer pool.Close()
			quick := c.Tier == "quick"
			exh := c17SeqMain(c, pool)
			fmt.Printf("  sequential: depth %v, %d sequences, %d steps\n", c.Coverage["seq_depth"], c.Get("seq_sequences"), c.Get("seq_steps"))
			per := map[string]any{}
			hists := 0
			deadlocks := map[string]int{}
			drivers := c17Drivers()
			// second pass at statement granularity inside package cache: unsynchronised accesses
			// (a scratch buffer shared between two callers, a field read after the unlock) are
			// invisible to scheduling at synchronisation operations; bound 2 (thorough 3), without
			// the 511-node preload drivers
			for _, d := range c17Drivers() {
				if d.Preload > 0 {
					continue
				}
				d.Name += "@stmt"
				d.Stmt = true
				d.QB, d.TB = 2, 3
				drivers = append(drivers, d)
			}
			for _, d := range drivers {
				if !cfgSelected(d.Name) {
					continue
				}
				bound := d.QB
				if !quick {
					bound = d.TB
				}
				completed := -1
				var last *explore.DFSStats
				for b := 0; b <= bound; b++ {
					if c.OutOfTime() {
						break
					}
					st := explore.RunDFS(c, pool, "cache", d, b, 0)
					last = st
					if st.Nondet != "" {
						fmt.Println("NONDETERMINISM", d.Name, st.Nondet)
						c.Coverage["nondeterminism"] = st.Nondet
						break
					}
					for _, v := range st.Viols {
						eff := "?"
						if len(v.Viol) > 0 {
							eff = v.Viol[0]
						}
						c.Report(&explore.Violation{Property: "C17", Sig: map[string]string{"check": "cache-sched", "driver": d.Name, "verdict": v.Verdict, "effect": eff},
							Detail: map[string]any{"task": explore.DFSTask{Scenario: "cache", Params: explore.MustJSON(d), Prefix: v.Choices, MaxExecs: 1}, "violation": v}})
					}
					if len(st.Viols) > 0 || st.Capped {
						break
					}
					completed = b
				}
				if last == nil || completed < bound {
					exh = false
				}
				if last != nil {
					c.Add("evaluations", last.Execs)
					c.Add("determinism_rechecks", last.Rechecks)
					hists += len(last.Hists)
					if n := last.Outcomes["DEADLOCK"]; n > 0 {
						deadlocks[d.Name] = n
					}
					per[d.Name] = map[string]any{"capacity": d.Capacity, "clients": d.Clients, "prekeys": d.PreKeys, "preload": d.Preload, "bound_completed": completed, "bound_target": bound, "executions": last.Execs, "distinct_observations": len(last.Hists), "max_choice_points": last.MaxPoints, "deadlocked_executions": last.Outcomes["DEADLOCK"]}
					fmt.Printf("  %-22s bound %d/%d execs=%d obs=%d maxpoints=%d deadlocks=%d\n", d.Name, completed, bound, last.Execs, len(last.Hists), last.MaxPoints, last.Outcomes["DEADLOCK"])
				}
			}
			c.Coverage["distinct_nontrivial"] = hists
			c.Coverage["per_driver"] = per
			c.Coverage["deadlocks_observed_not_counted"] = deadlocks
			c.SetExhaustive(exh)
			c.Sample(map[string]any{"driver": "lru-replace", "capacity": 1, "resident": []int{1}, "clients": [][]string{{"get:2"}, {"get:1"}, {"get:2"}}})
			c.Coverage["rule"] = "(seq) every sequence of the stated depth over a 20-operation alphabet (Get+Release / Get+hold on three keys of charge 1 in two namespaces and one key of charge 2, release oldest/newest handle, Delete with callback, Evict, EvictNS, EvictAll, SetCapacity) on cache.NewCache(cache.NewLRU(1|2)) from one goroutine, oracle after every step: charge retained without any client handle (recomputed from the instrumented values, not from the cache's accounting) <= capacity, constructor once per residency, finalisation exactly once and never with a handle out, delete callback exactly once after finalisation, Evict*/Delete of an unpinned node finalises it at once; (sched) stateless DFS over schedules with deviation bounding on cache.NewCache(cache.NewLRU(n)) (n in {nil,1,2,600}); drivers of 2-3 goroutines issuing Get+Release / Get+hold / Delete(cb) / Evict / EvictNS / EvictAll / SetCapacity / Close(force or not) on 2 colliding keys, one family after pre-loading 511 nodes so the map grows during the window; instrumented values check: constructor never runs while a value of the key is live, handles never carry a finalised value, finalisation exactly once and (unless force-closed) with no outstanding handle, delete callbacks exactly once and never with a handle out, retained charge <= capacity when no handle is out, every constructed value finalised after release+Close; distinct_nontrivial = distinct multisets of client observations; deadlocks met inside the cache are counted (deadlocks_observed_not_counted) but are liveness, i.e. C09's verdict"
			c.Assume = []string{"bounded schedules", "SC memory"}
		},
	})
}
