// vrewrite instruments goleveldb's sources for the cooperative scheduler: channel types
// and operations, select, go, close and the sync / sync/atomic / time / math/rand /
// runtime imports are re-bound to verif/vsched and its shim packages. It writes the
// rewritten files plus an overlay.json for `go build -overlay`; /repo is never modified.
//
// usage: vrewrite -repo /repo -out DIR [-hooks DIR] [-stmt pkgdir,...] [-extra overlayfile=src ...]
package main

import (
	"bytes"
	"encoding/json"
	"flag"
	"fmt"
	"go/ast"
	"go/parser"
	"go/printer"
	"go/token"
	"os"
	"path/filepath"
	"sort"
	"strconv"
	"strings"

	"golang.org/x/tools/go/ast/astutil"
)

var shimImports = map[string]string{
	"sync":        "verif/vsync",
	"sync/atomic": "verif/vatomic",
	"time":        "verif/vtime",
	"math/rand":   "verif/vrand",
	"runtime":     "verif/vruntime",
}

// packages (relative to repo root) whose non-test files are rewritten
var pkgs = []string{
	"leveldb", "leveldb/cache", "leveldb/memdb", "leveldb/table", "leveldb/util",
	"leveldb/iterator", "leveldb/journal",
}

// per-file exceptions: imports that keep the real package (pure statistics counters)
var keepReal = map[string][]string{
	"leveldb/storage.go":          {"sync/atomic"},
	"leveldb/util/buffer_pool.go": {"sync/atomic"},
}

func main() {
	repo := flag.String("repo", "/repo", "repository root")
	out := flag.String("out", "", "output directory")
	hooks := flag.String("hooks", "", "directory with files to add to package leveldb (sub-directories name sub-packages)")
	stmt := flag.String("stmt", "", "comma-separated package dirs (all files) or single files (pkgdir/file.go) that get statement-granularity points")
	flag.Parse()
	if *out == "" {
		fmt.Fprintln(os.Stderr, "vrewrite: -out required")
		os.Exit(2)
	}
	stmtPk := map[string]bool{}
	for _, p := range strings.Split(*stmt, ",") {
		if p != "" {
			stmtPk[p] = true
		}
	}
	overlay := map[string]string{}
	for _, p := range pkgs {
		dir := filepath.Join(*repo, p)
		ents, err := os.ReadDir(dir)
		if err != nil {
			fatal(err)
		}
		for _, e := range ents {
			n := e.Name()
			if e.IsDir() || !strings.HasSuffix(n, ".go") || strings.HasSuffix(n, "_test.go") {
				continue
			}
			rel := filepath.Join(p, n)
			src := filepath.Join(dir, n)
			dst := filepath.Join(*out, rel)
			changed, err := rewriteFile(src, dst, rel, stmtPk[p] || stmtPk[filepath.ToSlash(rel)])
			if err != nil {
				fatal(fmt.Errorf("%s: %v", rel, err))
			}
			if changed {
				overlay[src] = dst
			}
		}
	}
	if *hooks != "" {
		err := filepath.Walk(*hooks, func(path string, info os.FileInfo, err error) error {
			if err != nil || info.IsDir() || !strings.HasSuffix(path, ".go") {
				return err
			}
			rel, _ := filepath.Rel(*hooks, path)
			// hooks/<pkgpath>/file.go is added to /repo/<pkgpath>/zz_verif_file.go
			pk := filepath.Dir(rel)
			name := "zz_verif_" + filepath.Base(rel)
			dst := filepath.Join(*out, pk, name)
			target := filepath.Join(*repo, pk, name)
			if _, err := rewriteFile(path, dst, rel, false); err != nil {
				return fmt.Errorf("%s: %v", rel, err)
			}
			if _, err := os.Stat(dst); err != nil {
				// unchanged by rewrite: copy verbatim
				b, _ := os.ReadFile(path)
				os.MkdirAll(filepath.Dir(dst), 0o755)
				os.WriteFile(dst, b, 0o644)
			}
			overlay[target] = dst
			return nil
		})
		if err != nil {
			fatal(err)
		}
	}
	keys := make([]string, 0, len(overlay))
	for k := range overlay {
		keys = append(keys, k)
	}
	sort.Strings(keys)
	ov := struct{ Replace map[string]string }{overlay}
	b, _ := json.MarshalIndent(ov, "", " ")
	if err := os.WriteFile(filepath.Join(*out, "overlay.json"), b, 0o644); err != nil {
		fatal(err)
	}
	fmt.Printf("vrewrite: %d files in overlay\n", len(keys))
}

func fatal(err error) {
	fmt.Fprintln(os.Stderr, "vrewrite:", err)
	os.Exit(2)
}

type rw struct {
	fset     *token.FileSet
	file     *ast.File
	needVS   bool
	skip     map[ast.Node]bool // comm-clause nodes handled by the select rewrite
	recv2    map[ast.Node]bool // unary receives in a two-value context
	counter  int
	stmtMode bool
}

func vsSel(name string) ast.Expr {
	return &ast.SelectorExpr{X: ast.NewIdent("vsched"), Sel: ast.NewIdent(name)}
}

func chanOf(elem ast.Expr) ast.Expr {
	return &ast.StarExpr{X: &ast.IndexExpr{X: vsSel("Chan"), Index: elem}}
}

// isChanOf recognises *vsched.Chan[T] produced by chanOf.
func isChanOf(e ast.Expr) (ast.Expr, bool) {
	st, ok := e.(*ast.StarExpr)
	if !ok {
		return nil, false
	}
	ix, ok := st.X.(*ast.IndexExpr)
	if !ok {
		return nil, false
	}
	se, ok := ix.X.(*ast.SelectorExpr)
	if !ok {
		return nil, false
	}
	if id, ok := se.X.(*ast.Ident); !ok || id.Name != "vsched" || se.Sel.Name != "Chan" {
		return nil, false
	}
	return ix.Index, true
}

func method(x ast.Expr, name string, args ...ast.Expr) *ast.CallExpr {
	switch x.(type) {
	case *ast.Ident, *ast.SelectorExpr, *ast.CallExpr, *ast.IndexExpr, *ast.ParenExpr:
	default:
		x = &ast.ParenExpr{X: x}
	}
	return &ast.CallExpr{Fun: &ast.SelectorExpr{X: x, Sel: ast.NewIdent(name)}, Args: args}
}

func rewriteFile(src, dst, rel string, stmtMode bool) (bool, error) {
	fset := token.NewFileSet()
	b, err := os.ReadFile(src)
	if err != nil {
		return false, err
	}
	f, err := parser.ParseFile(fset, src, b, parser.ParseComments)
	if err != nil {
		return false, err
	}
	r := &rw{fset: fset, file: f, skip: map[ast.Node]bool{}, recv2: map[ast.Node]bool{}, stmtMode: stmtMode}
	changed := false

	// imports
	keep := map[string]bool{}
	for _, k := range keepReal[filepath.ToSlash(rel)] {
		keep[k] = true
	}
	for _, im := range f.Imports {
		p, _ := strconv.Unquote(im.Path.Value)
		if np, ok := shimImports[p]; ok && !keep[p] {
			base := p[strings.LastIndex(p, "/")+1:]
			if im.Name == nil {
				im.Name = ast.NewIdent(base)
			}
			im.Path.Value = strconv.Quote(np)
			im.EndPos = 0
			changed = true
		}
	}

	pre := func(c *astutil.Cursor) bool {
		switch n := c.Node().(type) {
		case *ast.SelectStmt:
			for _, cl := range n.Body.List {
				cc := cl.(*ast.CommClause)
				switch s := cc.Comm.(type) {
				case *ast.SendStmt:
					r.skip[s] = true
				case *ast.ExprStmt:
					r.skip[s] = true
					if u, ok := unparen(s.X).(*ast.UnaryExpr); ok && u.Op == token.ARROW {
						r.skip[u] = true
					}
				case *ast.AssignStmt:
					r.skip[s] = true
					if len(s.Rhs) == 1 {
						if u, ok := unparen(s.Rhs[0]).(*ast.UnaryExpr); ok && u.Op == token.ARROW {
							r.skip[u] = true
						}
					}
				}
			}
		case *ast.AssignStmt:
			if len(n.Lhs) == 2 && len(n.Rhs) == 1 {
				if u, ok := unparen(n.Rhs[0]).(*ast.UnaryExpr); ok && u.Op == token.ARROW {
					r.recv2[u] = true
				}
			}
		case *ast.ValueSpec:
			if len(n.Names) == 2 && len(n.Values) == 1 {
				if u, ok := unparen(n.Values[0]).(*ast.UnaryExpr); ok && u.Op == token.ARROW {
					r.recv2[u] = true
				}
			}
		}
		return true
	}
	var rerr error
	post := func(c *astutil.Cursor) bool {
		switch n := c.Node().(type) {
		case *ast.ChanType:
			r.needVS = true
			c.Replace(chanOf(n.Value))
		case *ast.CallExpr:
			if id, ok := n.Fun.(*ast.Ident); ok {
				switch id.Name {
				case "make":
					if len(n.Args) >= 1 {
						if elem, ok := isChanOf(n.Args[0]); ok {
							r.needVS = true
							c.Replace(&ast.CallExpr{
								Fun:  &ast.IndexExpr{X: vsSel("NewChan"), Index: elem},
								Args: n.Args[1:],
							})
						}
					}
				case "close":
					if len(n.Args) == 1 && id.Obj == nil {
						c.Replace(method(n.Args[0], "Close"))
					}
				}
			}
		case *ast.SendStmt:
			if r.skip[n] {
				return true
			}
			c.Replace(&ast.ExprStmt{X: method(n.Chan, "Send", n.Value)})
		case *ast.UnaryExpr:
			if n.Op != token.ARROW || r.skip[n] {
				return true
			}
			if r.recv2[n] {
				c.Replace(method(n.X, "Recv2"))
			} else {
				c.Replace(method(n.X, "Recv"))
			}
		case *ast.GoStmt:
			r.needVS = true
			c.Replace(r.goStmt(n))
		case *ast.SelectStmt:
			r.needVS = true
			blk, err := r.selectStmt(n)
			if err != nil {
				rerr = err
				return false
			}
			c.Replace(blk)
		case *ast.RangeStmt:
			// range over channel cannot be recognised without types; the build fails loudly.
		}
		return true
	}
	before := nodeCount(f)
	astutil.Apply(f, pre, post)
	if rerr != nil {
		return false, rerr
	}
	if r.needVS || nodeCount(f) != before {
		changed = true
	}
	if r.stmtMode && r.insertStmtPoints(f) > 0 {
		r.needVS = true
		changed = true
	}
	if r.needVS {
		astutil.AddNamedImport(fset, f, "vsched", "verif/vsched")
	}
	if !changed && !usesChanMethods(b) {
		return false, nil
	}
	var buf bytes.Buffer
	// build constraint: raise the per-file language version so generics compile
	hasConstraint := false
	for _, cg := range f.Comments {
		if cg.Pos() < f.Package {
			for _, cm := range cg.List {
				if strings.HasPrefix(cm.Text, "//go:build ") {
					cm.Text = "//go:build (" + strings.TrimPrefix(cm.Text, "//go:build ") + ") && go1.18"
					hasConstraint = true
				}
				if strings.HasPrefix(cm.Text, "// +build ") {
					cm.Text = "//"
				}
			}
		}
	}
	if !hasConstraint {
		buf.WriteString("//go:build go1.18\n\n")
	}
	cfg := printer.Config{Mode: printer.UseSpaces | printer.TabIndent, Tabwidth: 8}
	if err := cfg.Fprint(&buf, fset, f); err != nil {
		return false, err
	}
	if err := os.MkdirAll(filepath.Dir(dst), 0o755); err != nil {
		return false, err
	}
	// sanity: result must parse
	if _, err := parser.ParseFile(token.NewFileSet(), dst, buf.Bytes(), 0); err != nil {
		os.WriteFile(dst+".bad", buf.Bytes(), 0o644)
		return false, fmt.Errorf("rewritten file does not parse: %v", err)
	}
	return true, os.WriteFile(dst, buf.Bytes(), 0o644)
}

func usesChanMethods(b []byte) bool { return false }

func nodeCount(f *ast.File) int {
	n := 0
	ast.Inspect(f, func(ast.Node) bool { n++; return true })
	return n
}

func unparen(e ast.Expr) ast.Expr {
	for {
		p, ok := e.(*ast.ParenExpr)
		if !ok {
			return e
		}
		e = p.X
	}
}

func (r *rw) tmp(kind string) string {
	r.counter++
	return fmt.Sprintf("_vs%s%d", kind, r.counter)
}

// go f(a, b)  =>  { _f, _a, _b := f, a, b; vsched.Go(func() { _f(_a, _b) }) }
func (r *rw) goStmt(n *ast.GoStmt) ast.Stmt {
	call := n.Call
	var lhs, rhs []ast.Expr
	var fun ast.Expr
	if fl, ok := call.Fun.(*ast.FuncLit); ok {
		fun = fl // evaluating a function literal has no side effects
	} else {
		fn := r.tmp("f")
		lhs = append(lhs, ast.NewIdent(fn))
		rhs = append(rhs, call.Fun)
		fun = ast.NewIdent(fn)
	}
	var args []ast.Expr
	for _, a := range call.Args {
		an := r.tmp("a")
		lhs = append(lhs, ast.NewIdent(an))
		rhs = append(rhs, a)
		args = append(args, ast.NewIdent(an))
	}
	inner := &ast.CallExpr{Fun: fun, Args: args, Ellipsis: call.Ellipsis}
	if call.Ellipsis.IsValid() {
		inner.Ellipsis = 1
	}
	goCall := &ast.ExprStmt{X: &ast.CallExpr{Fun: vsSel("Go"), Args: []ast.Expr{
		&ast.FuncLit{Type: &ast.FuncType{Params: &ast.FieldList{}}, Body: &ast.BlockStmt{List: []ast.Stmt{&ast.ExprStmt{X: inner}}}},
	}}}
	var list []ast.Stmt
	if len(lhs) > 0 {
		list = append(list, &ast.AssignStmt{Lhs: lhs, Tok: token.DEFINE, Rhs: rhs})
	}
	list = append(list, goCall)
	return &ast.BlockStmt{List: list}
}

func (r *rw) selectStmt(n *ast.SelectStmt) (ast.Stmt, error) {
	var pre []ast.Stmt
	var caseVars []ast.Expr
	var clauses []ast.Stmt
	hasDefault := false
	idx := 0
	for _, cl := range n.Body.List {
		cc := cl.(*ast.CommClause)
		if cc.Comm == nil {
			hasDefault = true
			clauses = append(clauses, &ast.CaseClause{
				List: []ast.Expr{&ast.UnaryExpr{Op: token.SUB, X: &ast.BasicLit{Kind: token.INT, Value: "1"}}},
				Body: cc.Body,
			})
			continue
		}
		cv := r.tmp("c")
		var mk ast.Expr
		var head []ast.Stmt
		switch s := cc.Comm.(type) {
		case *ast.SendStmt:
			mk = method(s.Chan, "SendCase", s.Value)
		case *ast.ExprStmt:
			u, ok := unparen(s.X).(*ast.UnaryExpr)
			if !ok || u.Op != token.ARROW {
				return nil, fmt.Errorf("select: unsupported comm clause")
			}
			mk = method(u.X, "RecvCase")
		case *ast.AssignStmt:
			u, ok := unparen(s.Rhs[0]).(*ast.UnaryExpr)
			if !ok || u.Op != token.ARROW {
				return nil, fmt.Errorf("select: unsupported comm clause")
			}
			mk = method(u.X, "RecvCase")
			rhs := []ast.Expr{&ast.SelectorExpr{X: ast.NewIdent(cv), Sel: ast.NewIdent("V")}}
			if len(s.Lhs) == 2 {
				rhs = append(rhs, &ast.SelectorExpr{X: ast.NewIdent(cv), Sel: ast.NewIdent("Ok")})
			}
			head = append(head, &ast.AssignStmt{Lhs: s.Lhs, Tok: s.Tok, Rhs: rhs})
		default:
			return nil, fmt.Errorf("select: unsupported comm clause %T", s)
		}
		pre = append(pre, &ast.AssignStmt{Lhs: []ast.Expr{ast.NewIdent(cv)}, Tok: token.DEFINE, Rhs: []ast.Expr{mk}})
		caseVars = append(caseVars, ast.NewIdent(cv))
		clauses = append(clauses, &ast.CaseClause{
			List: []ast.Expr{&ast.BasicLit{Kind: token.INT, Value: strconv.Itoa(idx)}},
			Body: append(head, cc.Body...),
		})
		idx++
	}
	hd := "false"
	if hasDefault {
		hd = "true"
	}
	args := append([]ast.Expr{ast.NewIdent(hd)}, caseVars...)
	sw := &ast.SwitchStmt{
		Tag:  &ast.CallExpr{Fun: vsSel("Select"), Args: args},
		Body: &ast.BlockStmt{List: clauses},
	}
	return &ast.BlockStmt{List: append(pre, sw)}, nil
}

// insertStmtPoints puts vsched.Stmt() before every statement of every function body
// (statement-granularity interleaving for small lock-protected structures).
func (r *rw) insertStmtPoints(f *ast.File) int {
	var doBlock func(b *ast.BlockStmt)
	inserted := 0
	pt := func() ast.Stmt {
		inserted++
		return &ast.ExprStmt{X: &ast.CallExpr{Fun: vsSel("Stmt")}}
	}
	doList := func(list []ast.Stmt) []ast.Stmt {
		var out []ast.Stmt
		for _, s := range list {
			switch s.(type) {
			case *ast.DeclStmt, *ast.LabeledStmt, *ast.EmptyStmt:
			default:
				out = append(out, pt())
			}
			out = append(out, s)
		}
		return out
	}
	doBlock = func(b *ast.BlockStmt) {
		if b == nil {
			return
		}
		b.List = doList(b.List)
	}
	skip := map[*ast.BlockStmt]bool{}
	ast.Inspect(f, func(n ast.Node) bool {
		switch x := n.(type) {
		case *ast.SwitchStmt:
			skip[x.Body] = true
		case *ast.TypeSwitchStmt:
			skip[x.Body] = true
		case *ast.SelectStmt:
			skip[x.Body] = true
		case *ast.BlockStmt:
			if skip[x] {
				return true
			}
			doBlock(x)
		case *ast.CaseClause:
			x.Body = doList(x.Body)
		}
		return true
	})
	return inserted
}
