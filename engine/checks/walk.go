package checks

import (
	"fmt"

	"github.com/syndtr/goleveldb/leveldb/iterator"
	"verif/model"
)

// walkStats counts the movement enumeration.
type walkStats struct {
	Seqs, Moves int
	Errored     int // sequences that ended with the iterator reporting an error (walkAllErr)
}

var moveNames = []string{"First", "Last", "Next", "Prev"}

// walkAll enumerates EVERY sequence of up to depth moves over {First, Last, Next, Prev,
// Seek(k) for k in seeks} on fresh iterators and compares return value, Valid, Key and Value
// after every move with a cursor over the sorted list `want`. Returns the first
// disagreement (with the move sequence) or "".
func walkAll(newIter func() iterator.Iterator, want []model.Pair, cmp model.Cmp, seeks [][]byte, depth int, st *walkStats) string {
	return walkAllErr(newIter, want, cmp, seeks, depth, st, false)
}

// walkAllErr: with errOK, a move after which the iterator reports an error ends the sequence
// (an iterator over a failing source may stop; it may not answer wrongly while reporting
// no error).
func walkAllErr(newIter func() iterator.Iterator, want []model.Pair, cmp model.Cmp, seeks [][]byte, depth int, st *walkStats, errOK bool) string {
	nm := 4 + len(seeks)
	seq := make([]int, 0, depth)
	var rec func() string
	run := func() string {
		it := newIter()
		defer it.Release()
		cur := model.NewCursor(want, cmp)
		st.Seqs++
		for i, m := range seq {
			var got, exp bool
			switch {
			case m == 0:
				got, exp = it.First(), cur.First()
			case m == 1:
				got, exp = it.Last(), cur.Last()
			case m == 2:
				got, exp = it.Next(), cur.Next()
			case m == 3:
				got, exp = it.Prev(), cur.Prev()
			default:
				k := seeks[m-4]
				got, exp = it.Seek(k), cur.Seek(k)
			}
			st.Moves++
			if errOK && it.Error() != nil {
				st.Errored++
				if got || it.Valid() {
					return fmt.Sprintf("moves %s: move %d reports error %v but returned %v, Valid()=%v", descMoves(seq[:i+1], seeks), i, it.Error(), got, it.Valid())
				}
				return ""
			}
			bad := ""
			switch {
			case got != exp:
				bad = fmt.Sprintf("returned %v, model %v", got, exp)
			case it.Valid() != cur.Valid():
				bad = fmt.Sprintf("Valid()=%v, model %v", it.Valid(), cur.Valid())
			case cur.Valid() && (string(it.Key()) != cur.Key() || string(it.Value()) != cur.Value()):
				bad = fmt.Sprintf("at %q=%q, model at %q=%q", it.Key(), it.Value(), cur.Key(), cur.Value())
			case it.Error() != nil:
				bad = fmt.Sprintf("iterator error %v", it.Error())
			}
			if bad != "" {
				return fmt.Sprintf("moves %s: move %d %s", descMoves(seq[:i+1], seeks), i, bad)
			}
		}
		return ""
	}
	rec = func() string {
		if len(seq) > 0 {
			// only run complete prefixes once: a sequence is checked when it is a leaf or
			// at its full length; prefixes are covered by their extensions
			if len(seq) == depth {
				return run()
			}
		}
		if len(seq) == depth {
			return ""
		}
		for m := 0; m < nm; m++ {
			seq = append(seq, m)
			if v := rec(); v != "" {
				return v
			}
			seq = seq[:len(seq)-1]
		}
		return ""
	}
	if depth == 0 {
		return ""
	}
	return rec()
}

func descMoves(seq []int, seeks [][]byte) string {
	s := ""
	for i, m := range seq {
		if i > 0 {
			s += ","
		}
		if m < 4 {
			s += moveNames[m]
		} else {
			s += fmt.Sprintf("Seek(%q)", seeks[m-4])
		}
	}
	return s
}
