package findings

import (
	"bytes"
	"runtime"
	"testing"

	"github.com/syndtr/goleveldb/leveldb/opt"
	"github.com/syndtr/goleveldb/leveldb/table"
	"github.com/syndtr/goleveldb/leveldb/util"
)

// D21 (C08): table.Writer.Close returned its block buffer to the buffer pool every time it
// was called. When finishing a compaction output fails (e.g. the storage file's Close
// fails), the compaction retries with the same table writer and Close runs again: the same
// buffer is in the pool twice, two later users (table readers) get the same memory, and
// reads return garbage or crash. Found by C08: fault on Close of a table file during a
// compaction over tombstones (history 'put:b w:-a,-c put:c put:a cr w:-a,-c cr').
func TestD21_WriterCloseTwicePutsBufferTwice(t *testing.T) {
	runtime.GOMAXPROCS(1) // keep sync.Pool's per-P caches out of the picture
	pool := util.NewBufferPool(4096)
	var out bytes.Buffer
	w := table.NewWriter(&out, &opt.Options{Compression: opt.NoCompression}, pool, 4096)
	if err := w.Append([]byte("k"), []byte("v")); err != nil {
		t.Fatal(err)
	}
	if err := w.Close(); err != nil {
		t.Fatal(err)
	}
	if err := w.Close(); err == nil { // what a retry after a failed finish does
		t.Fatal("second Close should report that the writer is closed")
	}
	a := pool.Get(4096)
	b := pool.Get(4096)
	a[0], b[0] = 1, 2
	if a[0] != 1 {
		t.Fatalf("two buffers handed out by the pool share memory (a[0]=%d after writing b[0])", a[0])
	}
}
