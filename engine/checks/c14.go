package checks

import (
	"encoding/json"
	"fmt"
	"hash/fnv"
	"sort"
	"strings"

	"github.com/syndtr/goleveldb/leveldb/comparer"
	"github.com/syndtr/goleveldb/leveldb/iterator"
	"github.com/syndtr/goleveldb/leveldb/memdb"
	"github.com/syndtr/goleveldb/leveldb/util"
	"verif/explore"
	"verif/model"
	"verif/vsched"
	"verif/vsync"
)

// C14 — the in-memory buffer. Sequential: every operation sequence up to a depth over
// Put/Delete/Reset on the real memdb, full query battery + movement enumeration at the end of
// each. Concurrent: the harness is built with statement-granularity scheduling points
// inserted into package memdb (vrewrite -stmt), one writer and up to two readers are
// explored under every schedule within the deviation bound.

var c14Keys = []string{"a", "b", "c"}
var c14Vals = []string{"", "x", "yy", "z"} // "x" and "z": same length, different content
var c14Probes = []string{"", "a", "aa", "b", "b\xff", "c", "d"}

func c14Alpha() []string {
	var a []string
	for _, k := range c14Keys {
		for vi := range c14Vals {
			a = append(a, fmt.Sprintf("p%s%d", k, vi))
		}
		a = append(a, "d"+k)
	}
	return append(a, "reset")
}

type c14Task struct {
	Prefix []string `json:"prefix"` // all extensions of this prefix up to Depth are run
	Depth  int      `json:"depth"`
	Move   int      `json:"move"`
}

type c14Result struct {
	Seqs, Queries, MoveSeqs, Moves int
	States                         int
	Viol                           []string
}

func c14Apply(db *memdb.DB, m *model.KV, op string) string {
	switch {
	case op == "reset":
		db.Reset()
		m.M = map[string]string{}
	case op[0] == 'p':
		k := op[1:2]
		v := c14Vals[int(op[2]-'0')]
		if err := db.Put([]byte(k), []byte(v)); err != nil {
			return fmt.Sprintf("Put(%q,%q): %v", k, v, err)
		}
		m.Put(k, v)
	case op[0] == 'd':
		k := op[1:2]
		err := db.Delete([]byte(k))
		_, had := m.Get(k)
		if had && err != nil {
			return fmt.Sprintf("Delete(%q) of a present key: %v", k, err)
		}
		if !had && err != memdb.ErrNotFound {
			return fmt.Sprintf("Delete(%q) of an absent key returned %v", k, err)
		}
		m.Del(k)
	}
	return ""
}

func c14Check(db *memdb.DB, m *model.KV, move int, res *c14Result) string {
	cmp := comparer.DefaultComparer
	sorted := m.Sorted()
	size := 0
	for _, p := range sorted {
		size += len(p.K) + len(p.V)
	}
	if db.Len() != len(sorted) {
		return fmt.Sprintf("Len() = %d, model has %d", db.Len(), len(sorted))
	}
	if db.Size() != size {
		return fmt.Sprintf("Size() = %d, live pairs sum to %d", db.Size(), size)
	}
	for _, p := range c14Probes {
		res.Queries++
		want, has := m.Get(p)
		v, err := db.Get([]byte(p))
		if has && (err != nil || string(v) != want) {
			return fmt.Sprintf("Get(%q) = %q,%v; model %q", p, v, err, want)
		}
		if !has && err != memdb.ErrNotFound {
			return fmt.Sprintf("Get(%q) = %q,%v; model has no such key", p, v, err)
		}
		if db.Contains([]byte(p)) != has {
			return fmt.Sprintf("Contains(%q) = %v; model %v", p, !has, has)
		}
		idx := sort.Search(len(sorted), func(i int) bool { return sorted[i].K >= p })
		rk, rv, err := db.Find([]byte(p))
		if idx == len(sorted) {
			if err != memdb.ErrNotFound {
				return fmt.Sprintf("Find(%q) = %q,%v; expected not found", p, rk, err)
			}
		} else if err != nil || string(rk) != sorted[idx].K || string(rv) != sorted[idx].V {
			return fmt.Sprintf("Find(%q) = %q=%q,%v; expected %q=%q", p, rk, rv, err, sorted[idx].K, sorted[idx].V)
		}
	}
	if move > 0 {
		var seeks [][]byte
		for _, p := range c14Probes {
			seeks = append(seeks, []byte(p))
		}
		bounds := [][]byte{nil, []byte("a"), []byte("aa"), []byte("b"), []byte("c"), []byte("d")}
		for _, s := range bounds {
			for _, l := range bounds {
				if s != nil && l != nil && cmp.Compare(s, l) > 0 {
					continue
				}
				var rg *util.Range
				if s != nil || l != nil {
					rg = &util.Range{Start: s, Limit: l}
				}
				st := walkStats{}
				v := walkAll(func() iterator.Iterator { return db.NewIterator(rg) }, m.Range(s, l), cmp.Compare, seeks, move, &st)
				res.MoveSeqs += st.Seqs
				res.Moves += st.Moves
				if v != "" {
					return fmt.Sprintf("range [%q,%q): %s", s, l, v)
				}
			}
		}
	}
	return ""
}

func runC14Seq(t *c14Task) *c14Result {
	res := &c14Result{}
	alpha := c14Alpha()
	states := map[uint64]bool{}
	var rec func(seq []string)
	run := func(seq []string) {
		db := memdb.New(comparer.DefaultComparer, 64)
		m := model.NewKV(comparer.DefaultComparer.Compare)
		for i, op := range seq {
			// slices handed out before the operation (readers hold them without a lock)
			type held struct {
				k    string
				v    []byte
				copy string
			}
			var hs []held
			if op != "reset" {
				for _, k := range c14Keys {
					if v, err := db.Get([]byte(k)); err == nil {
						hs = append(hs, held{k, v, string(v)})
					}
				}
			}
			// iterators positioned before the LAST operation of the sequence and moved after it: a
			// reader may be parked anywhere while the writer inserts, overwrites or deletes
			type heldIt struct {
				it    iterator.Iterator
				fwd   bool
				valid bool
				key   string
				how   string
			}
			var its []heldIt
			var stale iterator.Iterator
			if i == len(seq)-1 && op != "reset" {
				// an iterator released before the others are created; its handle is released a second
				// time ("can be called multiple times") while they are live
				stale = db.NewIterator(nil)
				stale.First()
				stale.Release()
				for _, fwd := range []bool{true, false} {
					starts := []string{"First", "Last"}
					for _, p := range c14Probes {
						starts = append(starts, "Seek:"+p)
					}
					for _, st := range starts {
						it := db.NewIterator(nil)
						var ok bool
						switch {
						case st == "First":
							ok = it.First()
						case st == "Last":
							ok = it.Last()
						default:
							ok = it.Seek([]byte(st[5:]))
						}
						h := heldIt{it: it, fwd: fwd, valid: ok, how: st}
						if ok {
							h.key = string(it.Key())
						}
						its = append(its, h)
					}
				}
			}
			if v := c14Apply(db, m, op); v != "" {
				res.Viol = append(res.Viol, fmt.Sprintf("sequence %v step %d: %s", seq, i, v))
				return
			}
			if stale != nil {
				stale.Release()
			}
			if len(its) > 0 {
				ever := map[string]bool{}
				for _, o := range seq {
					if o[0] == 'p' {
						ever[o[1:2]+"="+c14Vals[int(o[2]-'0')]] = true
					}
				}
				for _, h := range its {
					v := func() (viol string) {
						defer func() {
							if r := recover(); r != nil {
								viol = fmt.Sprintf("panic: %v", r)
							}
						}()
						if !h.valid {
							return "" // parked off either end: where it goes next is not constrained here
						}
						prev := h.key
						for step := 0; step < 4; step++ {
							var ok bool
							if h.fwd {
								ok = h.it.Next()
							} else {
								ok = h.it.Prev()
							}
							if !ok {
								if err := h.it.Error(); err != nil {
									return fmt.Sprintf("stopped with error %v", err)
								}
								return ""
							}
							k, val := string(h.it.Key()), string(h.it.Value())
							if (h.fwd && k <= prev) || (!h.fwd && k >= prev) {
								return fmt.Sprintf("moved from %q to %q: out of order", prev, k)
							}
							if !ever[k+"="+val] {
								return fmt.Sprintf("yields %q=%q which was never stored", k, val)
							}
							prev = k
						}
						return ""
					}()
					h.it.Release()
					if v != "" {
						dir := "Next"
						if !h.fwd {
							dir = "Prev"
						}
						res.Viol = append(res.Viol, fmt.Sprintf("sequence %v: iterator positioned with %s on %q before the last operation, then %s: %s", seq, h.how, h.key, dir, v))
						return
					}
				}
			}
			for _, h := range hs {
				if string(h.v) != h.copy {
					res.Viol = append(res.Viol, fmt.Sprintf("sequence %v step %d: the value of %q handed out before the step changed from %q to %q", seq, i, h.k, h.copy, h.v))
					return
				}
			}
		}
		res.Seqs++
		h := fnv.New64a()
		for _, p := range m.Sorted() {
			fmt.Fprintf(h, "%q=%q;", p.K, p.V)
		}
		states[h.Sum64()] = true
		mv := 0
		if len(seq) >= t.Depth-1 {
			mv = t.Move // movement enumeration on the deepest states (all contents occur there)
		}
		if v := c14Check(db, m, mv, res); v != "" {
			res.Viol = append(res.Viol, fmt.Sprintf("after %v: %s", seq, v))
		}
	}
	rec = func(seq []string) {
		if len(res.Viol) > 0 {
			return
		}
		run(seq)
		if len(seq) == t.Depth {
			return
		}
		for _, op := range alpha {
			rec(append(seq, op))
		}
	}
	rec(append([]string{}, t.Prefix...))
	res.States = len(states)
	return res
}

// ---- concurrent part ----

type c14Conc struct {
	Name    string     `json:"name"`
	Pre     []string   `json:"pre"`
	Writer  []string   `json:"writer"`
	Readers [][]string `json:"readers"`
	QB, TB  int
}

func c14ConcExec(p *c14Conc, prefix []int) *explore.Exec {
	var viol []string
	var obs []string
	r := vsched.Run(vsched.Options{Prefix: prefix}, func() {
		db := memdb.New(comparer.DefaultComparer, 256)
		ever := map[string]bool{}
		m := model.NewKV(comparer.DefaultComparer.Compare)
		note := func(op string) {
			if op[0] == 'p' {
				ever[op[1:2]+"="+c14Vals[int(op[2]-'0')]] = true
			}
		}
		for _, op := range p.Pre {
			note(op)
			c14Apply(db, m, op)
		}
		for _, op := range p.Writer {
			note(op)
		}
		var wg vsync.WaitGroup
		vsched.Arm()
		wg.Add(1)
		vsched.GoNamed("writer", func() {
			defer wg.Done()
			for _, op := range p.Writer {
				if v := c14Apply(db, m, op); v != "" {
					viol = append(viol, "writer: "+v)
				}
			}
		})
		for ri, ops := range p.Readers {
			ri, ops := ri, ops
			wg.Add(1)
			vsched.GoNamed(fmt.Sprintf("reader%d", ri), func() {
				defer wg.Done()
				it := db.NewIterator(nil)
				defer it.Release()
				var last []byte
				dir := 0
				for _, op := range ops {
					var ok bool
					switch {
					case op == "First":
						ok, dir, last = it.First(), 1, nil
					case op == "Last":
						ok, dir, last = it.Last(), -1, nil
					case op == "Next":
						ok = it.Next()
						if dir != 1 {
							last = nil
						}
						dir = 1
					case op == "Prev":
						ok = it.Prev()
						if dir != -1 {
							last = nil
						}
						dir = -1
					case strings.HasPrefix(op, "Seek:"):
						ok, dir, last = it.Seek([]byte(op[5:])), 1, nil
					case strings.HasPrefix(op, "Get:"):
						k := op[4:]
						v, err := db.Get([]byte(k))
						if err == nil {
							was := string(v)
							vsched.Yield()
							vsched.Yield()
							if string(v) != was {
								viol = append(viol, fmt.Sprintf("reader%d: Get(%q) result %q changed to %q while held", ri, k, was, v))
							}
						}
						if err == nil && !ever[k+"="+string(v)] {
							viol = append(viol, fmt.Sprintf("reader%d: Get(%q) = %q which was never stored", ri, k, v))
						} else if err != nil && err != memdb.ErrNotFound {
							viol = append(viol, fmt.Sprintf("reader%d: Get(%q) error %v", ri, k, err))
						}
						obs = append(obs, fmt.Sprintf("r%d %s=%q,%v", ri, op, v, err))
						continue
					case strings.HasPrefix(op, "Find:"):
						k := op[5:]
						rk, rv, err := db.Find([]byte(k))
						if err == nil && (!ever[string(rk)+"="+string(rv)] || string(rk) < k) {
							viol = append(viol, fmt.Sprintf("reader%d: Find(%q) = %q=%q which was never stored or is smaller than the key", ri, k, rk, rv))
						}
						obs = append(obs, fmt.Sprintf("r%d %s=%q=%q,%v", ri, op, rk, rv, err))
						continue
					}
					if ok {
						kb, vb := it.Key(), it.Value()
						k, v := string(kb), string(vb)
						// the reader keeps looking at the slices while the writer runs on
						vsched.Yield()
						vsched.Yield()
						if string(kb) != k || string(vb) != v {
							viol = append(viol, fmt.Sprintf("reader%d: pair %q=%q changed to %q=%q while the reader was looking at it (never stored as such)", ri, k, v, kb, vb))
						}
						if !ever[k+"="+v] {
							viol = append(viol, fmt.Sprintf("reader%d: %s yields %q=%q which was never stored", ri, op, k, v))
						}
						if last != nil {
							if (dir == 1 && k <= string(last)) || (dir == -1 && k >= string(last)) {
								viol = append(viol, fmt.Sprintf("reader%d: %s yields %q after %q (out of order)", ri, op, k, last))
							}
						}
						last = append([]byte(nil), k...)
						obs = append(obs, fmt.Sprintf("r%d %s=%s=%s", ri, op, k, v))
					} else {
						obs = append(obs, fmt.Sprintf("r%d %s=end", ri, op))
						last = nil
					}
					if err := it.Error(); err != nil {
						viol = append(viol, fmt.Sprintf("reader%d: iterator error %v", ri, err))
					}
				}
			})
		}
		wg.Wait()
		vsched.Disarm()
		// afterwards the buffer equals the model
		res := &c14Result{}
		if v := c14Check(db, m, 0, res); v != "" {
			viol = append(viol, "after the run: "+v)
		}
	})
	x := &explore.Exec{Points: r.Points, Verdict: r.Verdict.String(), Diverged: r.Diverged, Steps: r.Steps, Viol: viol}
	if r.Diverged != "" {
		return x
	}
	if r.Verdict != vsched.Completed {
		x.Viol = append(x.Viol, fmt.Sprintf("execution ended with %s: %v", r.Verdict, r.PanicValue))
		x.Blocked = append(r.Blocked, r.PanicStack)
	}
	h := fnv.New64a()
	for _, o := range obs {
		h.Write([]byte(o))
		h.Write([]byte{0})
	}
	x.Hist = h.Sum64()
	x.Outcome = strings.Join(obs, ";")
	if len(x.Outcome) > 200 {
		x.Outcome = x.Outcome[:200]
	}
	return x
}

func c14Drivers() []c14Conc {
	return []c14Conc{
		{Name: "put3-vs-scan", Pre: []string{"pb1"}, Writer: []string{"pa1", "pc2", "pb2"}, Readers: [][]string{{"First", "Next", "Next", "Next"}}, QB: 3, TB: 5},
		{Name: "put3-vs-seek-prev", Pre: []string{"pb1"}, Writer: []string{"pa1", "pc2", "pb0"}, Readers: [][]string{{"Seek:b", "Prev", "Next", "Next"}}, QB: 3, TB: 5},
		{Name: "put3-vs-get-find", Pre: []string{"pb1"}, Writer: []string{"pa1", "pb2", "db"}, Readers: [][]string{{"Get:a", "Find:b", "Get:b"}}, QB: 3, TB: 5},
		{Name: "put-del-vs-two-readers", Pre: []string{"pa1", "pc1"}, Writer: []string{"pb2", "da", "pa2"}, Readers: [][]string{{"First", "Next", "Next"}, {"Last", "Prev", "Prev"}}, QB: 2, TB: 3},
		// two readers walking backward at the same time (and one ranged Last): whatever scratch
		// state the lookups use must not be shared between readers holding only the read lock
		{Name: "two-backward-readers", Pre: []string{"pa1", "pb1", "pc1"}, Writer: []string{"pb2"}, Readers: [][]string{{"Last", "Prev", "Prev"}, {"Seek:c", "Prev", "Prev"}}, QB: 2, TB: 3},
		{Name: "backward-reader-vs-forward-reader", Pre: []string{"pa1", "pb1", "pc1"}, Writer: []string{"db"}, Readers: [][]string{{"Last", "Prev", "Prev"}, {"First", "Next", "Find:b"}}, QB: 2, TB: 3},
		{Name: "same-length-overwrite-vs-readers", Pre: []string{"pa1", "pb1"}, Writer: []string{"pb3", "pa3", "pb1"}, Readers: [][]string{{"First", "Next"}, {"Get:b", "Find:a"}}, QB: 2, TB: 4},
		{Name: "overwrite-vs-scan", Pre: []string{"pa1", "pb1", "pc1"}, Writer: []string{"pb2", "pb0", "pb2"}, Readers: [][]string{{"First", "Next", "Next", "Next"}, {"Get:b", "Get:b"}}, QB: 2, TB: 3},
	}
}

func init() {
	register(&Check{
		ID:    "C14",
		Level: "model_checking",
		Worker: func(task []byte) []byte {
			var probe struct {
				Scenario string `json:"scenario"`
			}
			json.Unmarshal(task, &probe)
			if probe.Scenario != "" {
				return dfsWorker(map[string]func(json.RawMessage) explore.RunFunc{"memdb": func(params json.RawMessage) explore.RunFunc {
					var p c14Conc
					json.Unmarshal(params, &p)
					return func(prefix []int) *explore.Exec { return c14ConcExec(&p, prefix) }
				}})(task)
			}
			var t c14Task
			json.Unmarshal(task, &t)
			return explore.MustJSON(runC14Seq(&t))
		},
		Main: func(c *explore.Ctx) {
			pool := explore.NewPool(0, "worker", "C14")
			defer pool.Close()
			quick := c.Tier == "quick"
			depth, move := 4, 3
			if !quick {
				depth, move = 5, 3
			}
			// sequential: shard by 2-operation prefixes
			alpha := c14Alpha()
			var tasks []c14Task
			tasks = append(tasks, c14Task{Prefix: nil, Depth: 1, Move: move})
			for _, a := range alpha {
				for _, b := range alpha {
					tasks = append(tasks, c14Task{Prefix: []string{a, b}, Depth: depth, Move: move})
				}
			}
			var raw [][]byte
			for _, t := range tasks {
				raw = append(raw, explore.MustJSON(t))
			}
			states := 0
			pool.Map(raw, func(i int, b []byte, err error) {
				var r c14Result
				if err != nil {
					r.Viol = explore.CrashViol(err)
				} else {
					json.Unmarshal(b, &r)
				}
				c.Add("transitions", r.Seqs)
				c.Add("traces_validated_against_impl", r.Seqs)
				c.Add("queries", r.Queries)
				c.Add("movement_sequences", r.MoveSeqs)
				if r.States > states {
					states = r.States
				}
				for _, v := range r.Viol {
					c.Report(&explore.Violation{Property: "C14", Sig: map[string]string{"check": "memdb-seq", "effect": v}, Detail: map[string]any{"task": tasks[i], "violation": v}})
				}
			})
			c.Coverage["states"] = states
			c.Coverage["sequence_depth"] = depth
			// concurrent
			exh := true
			per := map[string]any{}
			for _, d := range c14Drivers() {
				bound := d.QB
				if !quick {
					bound = d.TB
				}
				completed := -1
				var last *explore.DFSStats
				for b := 0; b <= bound; b++ {
					if c.OutOfTime() {
						break
					}
					st := explore.RunDFS(c, pool, "memdb", d, b, 0)
					last = st
					if st.Nondet != "" {
						fmt.Println("NONDETERMINISM", d.Name, st.Nondet)
						c.Coverage["nondeterminism"] = st.Nondet
						break
					}
					for _, v := range st.Viols {
						eff := "?"
						if len(v.Viol) > 0 {
							eff = v.Viol[0]
						}
						c.Report(&explore.Violation{Property: "C14", Sig: map[string]string{"check": "memdb-sched", "driver": d.Name, "verdict": v.Verdict, "effect": eff},
							Detail: map[string]any{"task": explore.DFSTask{Scenario: "memdb", Params: explore.MustJSON(d), Prefix: v.Choices, MaxExecs: 1}, "violation": v}})
					}
					if len(st.Viols) > 0 || st.Capped {
						break
					}
					completed = b
				}
				if last == nil || completed < bound {
					exh = false
				}
				if last != nil {
					c.Add("schedules", last.Execs)
					c.Add("distinct_reader_observations", len(last.Hists))
					per[d.Name] = map[string]any{"writer": d.Writer, "readers": d.Readers, "bound_completed": completed, "bound_target": bound, "executions": last.Execs, "distinct_observations": len(last.Hists), "max_choice_points": last.MaxPoints}
					fmt.Printf("  %-24s bound %d/%d execs=%d obs=%d maxpoints=%d\n", d.Name, completed, bound, last.Execs, len(last.Hists), last.MaxPoints)
				}
			}
			c.Coverage["per_driver"] = per
			c.SetExhaustive(exh)
			c.Sample(map[string]any{"sequence": []string{"pa1", "pb2", "da", "pa0", "reset", "pc1"}, "alphabet": alpha})
			c.Coverage["rule"] = "sequential: every sequence up to the depth over {Put(k,v) k in {a,b,c}, v in {'',x,yy}; Delete(k); Reset} on the real memdb; after each: Len, Size, Get/Contains/Find for 7 probes, and on the two deepest levels every movement sequence of the stated depth on 27 ranges; states = distinct contents reached; concurrent: build with statement-granularity scheduling points in package memdb; one writer (3 operations incl. an overwrite changing the value length and a delete) against 1-2 readers, all schedules within the deviation bound; readers must see strictly monotone keys and only pairs stored at some time, and the final content equals the model"
			c.Assume = []string{"concurrent part is deviation-bounded; statement granularity means a scheduling point before every statement of package memdb, so unsynchronised accesses inside memdb are interleaved too"}
		},
	})
}
