package checks

import (
	"encoding/json"
	"fmt"

	"verif/explore"
)

// C03 — snapshots and iterators are frozen views. BFS over writes/deletes/compactions
// interleaved with snapshot take/release and held iterators; after every step every live
// snapshot (Get/Has on probes + two-way scan through a fresh iterator) and the held iterator
// (re-scanned from First and from Last) must equal the model copy taken at creation.

var c03Alpha = []string{"put:a", "put:b", "del:a", "del:b", "b1", "cr", "q", "snap", "rel:0", "rel:1", "iter", "iterS", "reliter", "re"}

// transaction iterators are frozen views too: a second alphabet with an open transaction
var c03AlphaTr = []string{"put:a", "q", "otr", "tput:a", "tput:b", "tdel:a", "twrite", "titer", "reliter", "commit", "discard"}

func seqWorker(hk *seqHooks) func(task []byte) []byte {
	return func(task []byte) []byte {
		var t seqTask
		if err := json.Unmarshal(task, &t); err != nil {
			return explore.MustJSON(seqResult{Viol: []string{"bad task: " + err.Error()}})
		}
		return explore.MustJSON(runSeq(&t, hk))
	}
}

// runSpecs is the common coordinator of the sequence-search checks.
func runSpecs(c *explore.Ctx, id string, specs []seqSpec, rule string, assume []string) {
	pool := explore.NewPool(0, "worker", id)
	defer pool.Close()
	layouts := map[string]int{}
	perCfg := map[string]any{}
	exh := true
	for _, sp := range specs {
		if !cfgSelected(sp.Cfg) {
			continue
		}
		st := bfs(c, pool, sp, id)
		c.Add("states", st.States)
		c.Add("transitions", st.Transitions)
		c.Add("traces_validated_against_impl", st.Transitions)
		mergeLayouts(layouts, st.Layouts)
		name := sp.Cfg
		if sp.Mode != "" {
			name += "#" + sp.Mode
		}
		for perCfg[name] != nil {
			name += "+" + sp.Alpha[0]
		}
		perCfg[name] = map[string]any{"states": st.States, "transitions": st.Transitions, "depth_completed": st.MaxDepth, "depth_target": sp.Depth, "exhaustive": st.Exhaustive, "alphabet": sp.Alpha}
		if !st.Exhaustive || st.MaxDepth < sp.Depth {
			exh = false
		}
		fmt.Printf("  %-26s depth %d/%d states=%d transitions=%d layouts=%d\n", name, st.MaxDepth, sp.Depth, st.States, st.Transitions, len(st.Layouts))
	}
	c.Coverage["exhaustive"] = exh
	c.Coverage["per_config"] = perCfg
	c.Coverage["layout_classes"] = layouts
	c.Coverage["distinct_layout_classes"] = len(layouts)
	c.Coverage["worker_crashes"] = pool.Crashes
	c.Coverage["rule"] = rule
	c.Assume = assume
}

func init() {
	register(&Check{
		ID:     "C03",
		Level:  "model_checking",
		Worker: seqWorker(nil),
		Main: func(c *explore.Ctx) {
			var specs []seqSpec
			add := func(cfg string, d int) {
				specs = append(specs, seqSpec{Cfg: cfg, Alpha: c03Alpha, Depth: d, Checks: "db,views"})
			}
			specs = append(specs, seqSpec{Cfg: "bigbatch/bytewise", Alpha: c03AlphaTr, Depth: map[bool]int{true: 6, false: 8}[c.Tier == "quick"], Checks: "db,views", Mode: "tr"})
			ek := []string{"put:", "put:a", "del:", "w:-,+a", "cr", "q", "snap", "rel:0", "iter", "iterS", "reliter", "re"}
			specs = append(specs, seqSpec{Cfg: "flushy/bytewise", Alpha: ek, Depth: map[bool]int{true: 5, false: 6}[c.Tier == "quick"], Checks: "db,views", Probes: emptyKeyProbes, Mode: "emptykey"})
			if c.Tier == "quick" {
				add("flushy/bytewise", 5)
				add("deep/bytewise", 5)
				add("rot/bytewise", 5)
				add("wide/bytewise", 4)
				add("tinycache/bytewise", 4)
				add("snappy/bytewise", 4) // bloom filter per 16-byte block: versions of one key straddle filter ranges
			} else {
				add("flushy/bytewise", 7)
				add("deep/bytewise", 7)
				add("rot/bytewise", 6)
				add("wide/bytewise", 6)
				add("tinycache/bytewise", 6)
				add("snappy/bytewise", 6)
			}
			runSpecs(c, "C03", specs,
				"breadth-first search over sequences of writes, deletes, batch, CompactRange, Quiesce, Reopen, snapshot take/release (<=2 live), iterator create (on DB or on snapshot 0)/release (<=1 held); after every transition each live snapshot and the held iterator are read back completely and compared with the model copy taken when the view was created; the DB itself is compared with the current model",
				[]string{"keys {a,b}; at most two snapshots and one held iterator at a time", "background work only at client blocking points or explicit Quiesce", "state merge ignores cache contents"})
		},
	})
}
