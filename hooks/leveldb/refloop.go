//go:build verif

package leveldb

// Driver for the version-reference loop (C07/REF): a bare session over a caller-supplied
// storage whose real refLoop, setVersion, commit and tOps.remove are exercised with synthetic
// one-table records. Only existing unexported functions are called; nothing is re-implemented.

import (
	"github.com/syndtr/goleveldb/leveldb/opt"
	"github.com/syndtr/goleveldb/leveldb/storage"
)

type VerifSession struct {
	s *session
}

type VerifPin struct {
	v     *version
	Files []int64
	ID    int64
	done  bool
}

func VerifNewSession(stor storage.Storage, o *opt.Options) (*VerifSession, error) {
	s, err := newSession(stor, o)
	if err != nil {
		return nil, err
	}
	if err := s.create(); err != nil {
		s.close()
		s.release()
		return nil, err
	}
	return &VerifSession{s}, nil
}

func verifFiles(v *version) []int64 {
	var out []int64
	for _, tt := range v.levels {
		for _, t := range tt {
			out = append(out, t.fd.Num)
		}
	}
	return out
}

// AllocFile creates an (empty) table file with a fresh number and returns the number.
func (vs *VerifSession) AllocFile() (int64, error) {
	num := vs.s.allocFileNum()
	w, err := vs.s.stor.Create(storage.FileDesc{Type: storage.TypeTable, Num: num})
	if err != nil {
		return 0, err
	}
	w.Write([]byte{1})
	w.Close()
	return num, nil
}

// Commit installs a new version adding/deleting the given level-1 tables (key ranges are
// disjoint by construction: table n covers the single user key derived from n).
func (vs *VerifSession) Commit(add, del []int64) error {
	rec := &sessionRecord{}
	for _, n := range add {
		k := makeInternalKey(nil, []byte{byte(n >> 8), byte(n)}, 1, keyTypeVal)
		rec.addTable(1, n, 1, k, k)
	}
	for _, n := range del {
		rec.delTable(1, n)
	}
	return vs.s.commit(rec, false)
}

// Pin references the current version, like an iterator does.
func (vs *VerifSession) Pin() *VerifPin {
	v := vs.s.version()
	return &VerifPin{v: v, Files: verifFiles(v), ID: v.id}
}

func (p *VerifPin) Release() {
	if !p.done {
		p.done = true
		p.v.release()
	}
}

// Current lists the table numbers of the current version.
func (vs *VerifSession) Current() []int64 { return verifFiles(vs.s.stVersion) }

func (vs *VerifSession) CurrentID() int64 { return vs.s.stVersion.id }

func (vs *VerifSession) Close() {
	vs.s.close()
	vs.s.release()
}

// File-number allocator (C09 / C07): the session's own allocFileNum / reuseFileNum /
// markFileNum, called from several goroutines.
func (vs *VerifSession) AllocNum() int64  { return vs.s.allocFileNum() }
func (vs *VerifSession) ReuseNum(n int64) { vs.s.reuseFileNum(n) }
func (vs *VerifSession) MarkNum(n int64)  { vs.s.markFileNum(n) }
func (vs *VerifSession) NextNum() int64   { return vs.s.nextFileNum() }
