package checks

import (
	"encoding/json"
	"fmt"
	"github.com/syndtr/goleveldb/leveldb/opt"
	"sort"
	"strings"

	"github.com/syndtr/goleveldb/leveldb"
	"github.com/syndtr/goleveldb/leveldb/storage"
	"verif/explore"
	"verif/harness"
	"verif/model"
	"verif/vsched"
	"verif/vstor"
)

// C04 — crash consistency. A history runs once on the recording storage under the
// deterministic default schedule; then for EVERY position of the storage-operation log and
// every admissible post-crash image (synced prefix kept; unsynced tails lost / kept / cut at
// and inside write boundaries / cut and followed by zeros or garbage) the DB is recovered
// with leveldb.Open and its contents are compared with the set of acknowledged operations.

type crashTask struct {
	Cfg    string   `json:"cfg"`
	Ops    []string `json:"ops"`
	Full   bool     `json:"full"`   // all cut/fill variants (thorough)
	Nested bool     `json:"nested"` // crash again at every position of each recovery
}

type crashResult struct {
	Positions  int            `json:"positions"`
	Images     int            `json:"images"`
	Distinct   int            `json:"distinct"`
	Nontrivial int            `json:"nontrivial"`
	NestedImgs int            `json:"nested"`
	Viol       []string       `json:"viol,omitempty"`
	VPos       int            `json:"vpos,omitempty"`
	VVariant   string         `json:"vvariant,omitempty"`
	StorOps    int            `json:"stor_ops"`
	Tables     int            `json:"lsm_tables"`
	ByKind     map[string]int `json:"by_kind,omitempty"`
}

type crashBase struct {
	w    *harness.World
	ops  []vstor.Op
	keys []string
}

// recoverAndCheck opens the image and applies the oracle. Returns violations and the
// storage ops of the recovery (for nested crashes).
func recoverAndCheck(cfg string, img *vstor.Stor, issued []model.Batch, must []bool, may []bool, record bool, cmp model.Cmp) (viol []string, recOps []vstor.Op, tables int) {
	img.Record = record
	r := vsched.Run(vsched.Options{}, func() {
		w := harness.NewWorld(harness.Config{Name: cfg})
		w.Stor = img
		if err := w.Open(); err != nil {
			viol = append(viol, fmt.Sprintf("Open after crash failed: %v", err))
			return
		}
		if record {
			recOps = append(recOps, img.Ops...)
		}
		// contents
		obs := map[string]string{}
		it := w.DB.NewIterator(nil, nil)
		for it.Next() {
			obs[string(it.Key())] = string(it.Value())
		}
		if err := it.Error(); err != nil {
			viol = append(viol, fmt.Sprintf("iterator error after recovery: %v", err))
		}
		it.Release()
		// restrict the explanation to batches that were issued before the crash
		var cand []model.Batch
		var acked []bool
		for i, b := range issued {
			if may[i] {
				cand = append(cand, b)
				acked = append(acked, must[i])
			}
		}
		ok, in := model.Explain(cand, acked, obs, cmp)
		if !ok {
			viol = append(viol, fmt.Sprintf("recovered contents %v are not explained by any subset of the issued batches containing all sync-acknowledged ones (issued=%v must=%v)", obs, cand, acked))
			return
		}
		// point reads agree with the scan
		w.M = model.NewKV(cmp)
		for k, v := range obs {
			w.M.Put(k, v)
		}
		_ = in
		w.CheckDB()
		// LSM invariants of the recovered version
		lv, st := harness.CheckLSM(img, w.DB.VerifState(), w.Cfg)
		tables = st.Tables
		for _, v := range lv {
			w.Viol = append(w.Viol, "after recovery: "+v)
		}
		// fully usable: write, compact, reopen
		if !w.Failed() {
			w.Step = 500 // values distinct from everything the history wrote
			// (the first write after a recovery must itself survive a plain reopen: it is in the journal the
			// recovery created)
			for _, op := range []string{"put:a", "re", "w:+b,-a", "cr", "re", "del:b", "q"} {
				w.Apply(op)
				if !w.Failed() && (op == "re" || op == "q") {
					w.CheckDB()
				}
				if w.Failed() {
					break
				}
			}
		}
		viol = append(viol, w.Viol...)
		if !w.Failed() {
			w.Close()
		}
	})
	if r.Verdict != vsched.Completed {
		viol = append(viol, fmt.Sprintf("recovery execution ended with %s: %v %v", r.Verdict, r.PanicValue, r.Blocked))
	}
	return
}

func variantsFor(r *vstor.Replayed, full bool) []vstor.Variant {
	vs := []vstor.Variant{{KeepAll: false}, {KeepAll: true}}
	dirty := r.Dirty()
	fds := make([]storage.FileDesc, 0, len(dirty))
	for fd := range dirty {
		fds = append(fds, fd)
	}
	sort.Slice(fds, func(i, j int) bool {
		if fds[i].Type != fds[j].Type {
			return fds[i].Type < fds[j].Type
		}
		return fds[i].Num < fds[j].Num
	})
	for _, fd := range fds {
		cuts := dirty[fd]
		sort.Ints(cuts)
		keeps := append([]int{0}, cuts...)
		if !full && len(cuts) > 3 {
			// quick: nothing, first, middle and last cut
			keeps = []int{0, cuts[0], cuts[len(cuts)/2], cuts[len(cuts)-1]}
		}
		fills := []byte{0, 'g'}
		if full {
			fills = []byte{0, 'z', 'g'}
		}
		for _, base := range []bool{false, true} {
			for _, k := range keeps {
				for _, f := range fills {
					vs = append(vs, vstor.Variant{KeepAll: base, Dev: &vstor.Tail{Fd: fd, Keep: k, Fill: f}})
				}
			}
			// this file keeps its whole tail whatever the others do
			vs = append(vs, vstor.Variant{KeepAll: base, Dev: &vstor.Tail{Fd: fd, Keep: 1 << 30}})
		}
	}
	return vs
}

func runCrash(t *crashTask) *crashResult {
	res := &crashResult{ByKind: map[string]int{}}
	// 1. baseline
	var w *harness.World
	r := vsched.Run(vsched.Options{}, func() {
		w = harness.NewWorld(harness.Config{Name: t.Cfg})
		if !w.MustOpen() {
			return
		}
		for _, op := range t.Ops {
			w.Apply(op)
			if w.Failed() {
				return
			}
		}
		vsched.Quiesce()
		w.Close()
	})
	if r.Verdict != vsched.Completed || w == nil || w.Failed() {
		res.Viol = append(res.Viol, fmt.Sprintf("baseline run failed: %s %v %v", r.Verdict, r.PanicValue, w.Viol))
		return res
	}
	ops := w.Stor.Ops
	res.StorOps = len(ops)
	cmp := w.Cmp()
	seen := map[uint64]bool{}
	rep := vstor.Replay(nil, nil)
	for p := 0; p <= len(ops); p++ {
		if p > 0 {
			rep.Apply(&ops[p-1])
			if !ops[p-1].Kind.Mutating() && p < len(ops) {
				continue // the durable image does not change on reads
			}
		}
		res.Positions++
		if p > 0 {
			res.ByKind[ops[p-1].Kind.String()+"/"+ops[p-1].Fd.Type.String()]++
		}
		must := make([]bool, len(w.Issued))
		may := make([]bool, len(w.Issued))
		for i := range w.Issued {
			// may: at least one storage operation of the call happened before the crash;
			// must: acknowledged with sync (or committed) and every operation of the call is in
			may[i] = w.CallPos[i] < p
			must[i] = w.SyncAck[i] && w.AckPos[i] <= p
			if must[i] {
				may[i] = true
			}
		}
		allLost := rep.Image(vstor.Variant{}).Hash()
		allKept := rep.Image(vstor.Variant{KeepAll: true}).Hash()
		for _, v := range variantsFor(rep, t.Full) {
			img := rep.Image(v)
			res.Images++
			h := img.Hash()
			if seen[h] {
				continue
			}
			seen[h] = true
			res.Distinct++
			if h != allLost && h != allKept {
				res.Nontrivial++
			}
			viol, recOps, tables := recoverAndCheck(t.Cfg, img, w.Issued, must, may, t.Nested, cmp)
			if tables > res.Tables {
				res.Tables = tables
			}
			if len(viol) > 0 {
				res.Viol = viol
				res.VPos = p
				res.VVariant = v.String()
				if p > 0 {
					res.VVariant += " after " + ops[p-1].String()
				}
				return res
			}
			if t.Nested && len(recOps) > 0 {
				// crash during this recovery: every position, tails lost / kept
				base := rep.Image(v)
				rep2 := vstor.Replay(base, nil)
				for q := 0; q < len(recOps); q++ {
					rep2.Apply(&recOps[q])
					if !recOps[q].Kind.Mutating() {
						continue
					}
					for _, v2 := range []vstor.Variant{{}, {KeepAll: true}} {
						img2 := rep2.Image(v2)
						h2 := img2.Hash()
						if seen[h2] {
							continue
						}
						seen[h2] = true
						res.NestedImgs++
						viol2, _, _ := recoverAndCheck(t.Cfg, img2, w.Issued, must, may, false, cmp)
						if len(viol2) > 0 {
							res.Viol = viol2
							res.VPos = p
							res.VVariant = fmt.Sprintf("%s; then crash in recovery after %s (%s)", v.String(), recOps[q].String(), v2.String())
							return res
						}
					}
				}
			}
		}
	}
	return res
}

var c04Alpha = []string{"Sput:a", "put:b", "Sdel:a", "Sw:+a,+b", "w:+b,-a", "trx:+a,+c", "cr", "q", "re"}

// hand-written longer histories reaching L0->L1->L2 compaction, manifest rotation, recovery
// with two journals, transaction after flush.
var c04Long = [][]string{
	{"Sput:a", "Sput:b", "Sput:c", "q", "Sput:a", "Sdel:b", "q", "Sput:b", "cr", "Sput:c", "put:a", "q"},
	{"put:a", "put:b", "Sput:c", "re", "put:a", "Sput:b", "re", "Sdel:a", "q", "cr"},
	{"Sput:a", "trx:+a,+b,+c", "Sput:b", "q", "trx:-a,+c", "Sput:a", "cr", "re", "Sput:c"},
	{"Sw:+a,+b", "Sw:+b,-a", "q", "Sput:a", "Sput:a", "Sput:a", "q", "cr", "Sdel:a", "Sput:b", "q", "re", "Sput:a"},
	{"put:a", "put:b", "put:c", "put:a", "put:b", "Sput:c", "q", "put:a", "Sput:b"},
	{"Sput:a", "Sput:b", "cr", "Sput:a", "Sput:c", "cr", "Sdel:b", "Sput:b", "cr", "q"},
}

func genSeqs(alpha []string, n int) [][]string {
	out := [][]string{{}}
	level := [][]string{{}}
	for d := 0; d < n; d++ {
		var next [][]string
		for _, s := range level {
			for _, a := range alpha {
				x := append(append([]string{}, s...), a)
				next = append(next, x)
			}
		}
		out = append(out, next...)
		level = next
	}
	return out
}

// c04ConcExtra — durability under concurrency. At the end of one explored schedule of
// concurrent writers (sync / no-sync mixes, so that write groups merge both ways), the durable
// image is materialised at the storage-log position of every sync acknowledgement and at the
// end (all unsynced tails lost; and all kept), recovered with Open, and every key is compared
// with the call/return history: the recovered value must be one written to that key (or its
// initial value), and not one that a sync-acknowledged write definitely superseded (the
// superseded write returned before the acknowledged one was called).
func c04ConcExtra(w *harness.World, cr *concRun) {
	ops := w.Stor.Ops
	posSet := map[int]bool{len(ops): true}
	for _, d := range cr.Dur {
		posSet[d.AckPos] = true
	}
	if cr.P != nil && cr.P.CrashAll {
		for i := cr.WinPos; i < len(ops); i++ {
			if ops[i].Kind.Mutating() {
				posSet[i+1] = true
			}
		}
	}
	var poss []int
	for p := range posSet {
		poss = append(poss, p)
	}
	sort.Ints(poss)
	type wr struct {
		val       string
		del       bool
		call, ret int64
	}
	writes := map[string][]wr{}
	for k, v := range cr.Init {
		writes[k] = append(writes[k], wr{val: v, call: -1, ret: 0})
	}
	addBatch := func(b model.Batch, call, ret int64) {
		last := map[string]wr{}
		for _, o := range b {
			last[o.K] = wr{val: o.V, del: o.Del, call: call, ret: ret}
		}
		for k, x := range last {
			writes[k] = append(writes[k], x)
		}
	}
	for _, o := range cr.Hist {
		in := o.Input.(linInput)
		if in.Kind == "write" {
			addBatch(in.Batch, o.Call, o.Return)
		}
	}
	var keys []string
	for k := range writes {
		keys = append(keys, k)
	}
	sort.Strings(keys)
	seen := map[uint64]bool{}
	rep := vstor.Replay(nil, nil)
	applied := 0
	for _, p := range poss {
		for applied < p {
			rep.Apply(&ops[applied])
			applied++
		}
		for _, v := range []vstor.Variant{{}, {KeepAll: true}} {
			img := rep.Image(v)
			h := img.Hash()
			if seen[h] {
				continue
			}
			seen[h] = true
			w2 := harness.NewWorld(w.Cfg)
			w2.Stor = img
			if err := w2.Open(); err != nil {
				cr.Viol = append(cr.Viol, fmt.Sprintf("crash at storage op %d (%s): Open failed: %v", p, v.String(), err))
				return
			}
			for _, k := range keys {
				val, err := w2.DB.Get([]byte(k), nil)
				absent := err == leveldb.ErrNotFound
				if err != nil && !absent {
					cr.Viol = append(cr.Viol, fmt.Sprintf("crash at storage op %d (%s): Get(%q) after recovery: %v", p, v.String(), k, err))
					break
				}
				explained := false
				_, hadInit := cr.Init[k]
				cands := writes[k]
				if !hadInit {
					cands = append([]wr{{del: true, call: -1, ret: 0}}, cands...)
				}
				why := "a value never written to that key"
				for _, c := range cands {
					if c.del != absent || (!absent && c.val != string(val)) {
						continue
					}
					superseded := false
					for _, d := range cr.Dur {
						if d.AckPos > p || d.Call == c.call {
							continue
						}
						touches := false
						for _, o := range d.Batch {
							if o.K == k {
								touches = true
							}
						}
						if touches && c.ret < d.Call {
							superseded = true
							why = fmt.Sprintf("superseded by the write %v, acknowledged with sync before the crash", d.Batch)
						}
					}
					if !superseded {
						explained = true
						break
					}
				}
				if !explained {
					got := "not found"
					if !absent {
						got = fmt.Sprintf("%q", val)
					}
					cr.Viol = append(cr.Viol, fmt.Sprintf("after a crash (%s) a sync-acknowledged write is lost or contents invented: Get(%q) = %s is %s", v.String(), k, got, why))
					break
				}
			}
			// the recovered DB is a working one: a synced write made now survives a plain reopen
			if len(cr.Viol) == 0 {
				if err := w2.DB.Put([]byte("zz"), []byte("after-recovery"), &opt.WriteOptions{Sync: true}); err != nil {
					cr.Viol = append(cr.Viol, fmt.Sprintf("crash at storage op %d (%s): Put after recovery: %v", p, v.String(), err))
				}
				w2.DB.Close()
				w2.DB = nil
				if len(cr.Viol) == 0 {
					if err := w2.Open(); err != nil {
						cr.Viol = append(cr.Viol, fmt.Sprintf("crash at storage op %d (%s): reopen after recovery and one write failed: %v", p, v.String(), err))
					} else {
						if got, err := w2.DB.Get([]byte("zz"), nil); err != nil || string(got) != "after-recovery" {
							cr.Viol = append(cr.Viol, fmt.Sprintf("crash at storage op %d (%s): a synced write made after recovery is gone after a plain reopen: Get = %q, %v", p, v.String(), got, err))
						}
						w2.DB.Close()
						w2.DB = nil
					}
				}
			} else {
				w2.DB.Close()
			}
			if len(cr.Viol) > 0 {
				return
			}
		}
	}
	cr.Descr = append(cr.Descr, fmt.Sprintf("images=%d", len(seen)))
	cr.Aux = len(seen)
}

func c04ConcDrivers() []concParams {
	return []concParams{
		{Name: "sync-joins-nosync-group", Cfg: "roomy/bytewise", Clients: [][]string{{"put:a"}, {"Sput:b"}}, QB: 3, TB: 4, Expect: "noerr"},
		{Name: "nosync-joins-sync-group", Cfg: "roomy/bytewise", Clients: [][]string{{"Sput:a"}, {"put:a"}}, QB: 3, TB: 4, Expect: "noerr"},
		{Name: "3-writers-mixed", Cfg: "roomy/bytewise", Pre: []string{"put:a"}, Clients: [][]string{{"put:a"}, {"Sdel:a"}, {"put:b", "Sput:b"}}, QB: 2, TB: 3, Expect: "noerr"},
		{Name: "batches-mixed", Cfg: "roomy/bytewise", Clients: [][]string{{"w:+a,+b"}, {"Sw:+b,+c"}, {"put:c"}}, QB: 2, TB: 3, Expect: "noerr"},
		{Name: "mixed-no-merge", Cfg: "roomy/bytewise", NoMerge: true, Clients: [][]string{{"put:a"}, {"Sput:b"}, {"put:b"}}, QB: 2, TB: 3, Expect: "noerr"},
		{Name: "mixed-with-rotation", Cfg: "flushy/bytewise", Clients: [][]string{{"Sput:a"}, {"put:b"}, {"Sput:a"}}, QB: 1, TB: 2, Expect: "noerr"},
		{Name: "overflow-handoff-mixed", Cfg: "wide/bytewise", Clients: [][]string{{"put:a"}, {"SputL:b"}, {"Sput:a"}}, QB: 2, TB: 3, Expect: "noerr"},
		// a crash at every storage operation while a manual compaction (and the flushes and
		// automatic compactions the writers cause) runs next to sync writers
		{Name: "sync-writer-vs-compactrange", Cfg: "flushy/bytewise", Pre: []string{"Sput:a", "Sput:b", "q"}, Clients: [][]string{{"Sput:a", "Sput:c"}, {"cr"}}, QB: 1, TB: 2, Expect: "noerr", CrashAll: true},
		{Name: "sync-writers-vs-table-compaction", Cfg: "deep/bytewise", Pre: []string{"Sput:a", "Sput:b", "q"}, Clients: [][]string{{"Sput:b", "Sdel:a"}, {"Sput:c"}}, QB: 1, TB: 2, Expect: "noerr", CrashAll: true},
		{Name: "transaction-vs-sync-writer", Cfg: "bigbatch/bytewise", Pre: []string{"put:a"}, Clients: [][]string{{"tr:+a,+b"}, {"Sput:a"}}, QB: 1, TB: 2, Expect: "noerr"},
	}
}

func init() {
	register(&Check{
		ID:    "C04",
		Level: "fault_enumeration",
		Worker: func(task []byte) []byte {
			var probe struct {
				Scenario string `json:"scenario"`
			}
			json.Unmarshal(task, &probe)
			if probe.Scenario != "" {
				return dfsWorker(map[string]func(json.RawMessage) explore.RunFunc{"conc": func(params json.RawMessage) explore.RunFunc {
					var p concParams
					json.Unmarshal(params, &p)
					return func(prefix []int) *explore.Exec { return concExec(&p, prefix, c04ConcExtra) }
				}})(task)
			}
			var t crashTask
			if err := json.Unmarshal(task, &t); err != nil {
				return explore.MustJSON(crashResult{Viol: []string{"bad task"}})
			}
			return explore.MustJSON(runCrash(&t))
		},
		Main: func(c *explore.Ctx) {
			pool := explore.NewPool(0, "worker", "C04")
			defer pool.Close()
			var tasks []crashTask
			cfgs := []string{"flushy/bytewise", "rot/bytewise", "bigbatch/bytewise", "default/bytewise"}
			depth := 3
			full := false
			if c.Tier == "thorough" {
				depth = 4
				full = true
				cfgs = append(cfgs, "deep/bytewise", "nobig/bytewise", "wide/bytewise")
			}
			for _, cfg := range cfgs {
				if !cfgSelected(cfg) {
					continue
				}
				for _, h := range c04Long {
					tasks = append(tasks, crashTask{Cfg: cfg, Ops: h, Full: full, Nested: c.Tier == "thorough"})
				}
				// records larger than a 32 KiB journal block (torn inside and between blocks), with a
				// crash inside the recovery that replays them
				if cfg == "flushy/bytewise" || cfg == "default/bytewise" {
					tasks = append(tasks, crashTask{Cfg: cfg, Ops: []string{"Sput:b", "SputX:a", "Sput:c"}, Full: full, Nested: true},
						crashTask{Cfg: cfg, Ops: []string{"SputX:a", "re", "SputX:b", "put:c"}, Full: full, Nested: c.Tier == "thorough"},
						// a multi-entry batch whose journal record spans blocks: the first entries are
						// complete inside the first chunk, so a record cut in a later chunk must not be
						// replayed in part
						crashTask{Cfg: cfg, Ops: []string{"Sput:b", "w:+a,+c=X,-b,+d", "Sput:c"}, Full: full, Nested: c.Tier == "thorough"},
						crashTask{Cfg: cfg, Ops: []string{"w:+a,+c=X,+b=X,+d", "put:c", "Sput:a"}, Full: true, Nested: c.Tier == "thorough"})
				}
				// file numbers handed out and never recorded (the tables of a discarded transaction) before the
				// write buffer is rotated: the crash leaves a journal whose number is above the manifest's
				// next-file-number by 1..4
				if cfg == "flushy/bytewise" || cfg == "bigbatch/bytewise" {
					for k := 1; k <= 4; k++ {
						tasks = append(tasks, crashTask{Cfg: cfg, Ops: []string{"Sput:a", fmt.Sprintf("trd:%d", k), "Sput:b", "Sput:c", "put:a", "Sput:b"}, Full: full, Nested: c.Tier == "thorough"})
					}
				}
				nestMax := 2 // crash again inside recovery for the short histories
				if c.Tier == "thorough" {
					nestMax = 3
				}
				dd := depth
				if c.Tier == "quick" && cfg != "flushy/bytewise" {
					dd = depth - 1 // quick: full depth on the richest configuration only
				}
				for _, s := range genSeqs(c04Alpha, dd) {
					tasks = append(tasks, crashTask{Cfg: cfg, Ops: s, Full: full, Nested: len(s) <= nestMax})
				}
			}
			runCrashTasks(c, pool, "C04", tasks)
			runConcChecks(c, "C04", c04ConcDrivers(), 2, 0)
			c.Coverage["rule"] = "for each history (all sequences up to the depth over the alphabet, plus 6 long hand-written histories, per configuration): every position of the recorded storage-operation log x every image variant (all unsynced tails lost / kept, and per dirty file: tail cut at and inside write boundaries, optionally followed by zeros/garbage) is materialised, de-duplicated by content hash, recovered with leveldb.Open and checked; evaluations = images materialised (+ schedules explored), distinct_nontrivial = distinct images that differ from both all-lost and all-kept (+ distinct concurrent histories); plus durability under concurrency (per_driver): DFS with deviation bounding over schedules of 2-3 concurrent writers with sync/no-sync mixes (write groups merging both ways, overflow hand-off, rotation, a transaction), and per schedule the durable image at every sync acknowledgement and at the end (tails lost / kept) is recovered with Open: no value that a sync-acknowledged write definitely superseded, nothing never written"
			c.Coverage["alphabet"] = c04Alpha
			c.Coverage["history_depth"] = depth
			c.Assume = []string{"metadata operations (create/remove/rename/CURRENT switch) are durable and ordered when they return; file content is durable up to its last Sync", "default (non-strict) journal/manifest options", "history itself runs on the default schedule (background work at client blocking points / Quiesce)"}
		},
	})
}

func runCrashTasks(c *explore.Ctx, pool *explore.Pool, id string, tasks []crashTask) {
	exh := true
	// run in chunks so the time budget is honoured
	const chunk = 256
	byKind := map[string]int{}
	done := 0
	for start := 0; start < len(tasks); start += chunk {
		if c.OutOfTime() {
			exh = false
			break
		}
		end := start + chunk
		if end > len(tasks) {
			end = len(tasks)
		}
		var raw [][]byte
		for _, t := range tasks[start:end] {
			raw = append(raw, explore.MustJSON(t))
		}
		pool.Map(raw, func(i int, b []byte, err error) {
			t := tasks[start+i]
			var r crashResult
			if err != nil {
				r.Viol = explore.CrashViol(err)
			} else {
				json.Unmarshal(b, &r)
			}
			done++
			c.Add("evaluations", r.Images)
			c.Add("distinct_images", r.Distinct)
			c.Add("distinct_nontrivial", r.Nontrivial)
			c.Add("crash_points", r.Positions)
			c.Add("nested_images", r.NestedImgs)
			c.Add("storage_ops_logged", r.StorOps)
			for k, v := range r.ByKind {
				byKind[k] += v
			}
			if r.Tables > c.Get("max_tables_in_recovered_version") {
				c.Coverage["max_tables_in_recovered_version"] = r.Tables
			}
			if len(r.Viol) > 0 {
				eff := r.Viol[0]
				if i := strings.Index(eff, " map["); i > 0 {
					eff = eff[:i]
				}
				c.Report(&explore.Violation{Property: id, Sig: map[string]string{
					"check": "crash", "config": t.Cfg, "ops": strings.Join(t.Ops, " "), "effect": eff, "variant": r.VVariant,
				}, Detail: map[string]any{"task": t, "result": r}})
			} else if len(t.Ops) >= 3 && done%97 == 0 {
				c.Sample(map[string]any{"cfg": t.Cfg, "history": t.Ops, "storage_ops": r.StorOps, "crash_points": r.Positions, "distinct_images": r.Distinct})
			}
		})
		if c.Viol > 10 {
			exh = false
			break
		}
	}
	c.Coverage["histories"] = done
	c.Coverage["histories_planned"] = len(tasks)
	c.Coverage["positions_by_kind"] = byKind
	c.SetExhaustive(exh && done == len(tasks))
	c.Coverage["worker_crashes"] = pool.Crashes
	if len(tasks) > 0 {
		c.Sample(map[string]any{"cfg": tasks[0].Cfg, "history": tasks[len(tasks)/2].Ops})
	}
	_ = leveldb.ErrNotFound
}
