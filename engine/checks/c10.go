package checks

import (
	"bytes"
	"encoding/binary"
	"encoding/json"
	"fmt"
	"io"
	"sort"
	"strings"
	"verif/model"

	"github.com/syndtr/goleveldb/leveldb/journal"
	"github.com/syndtr/goleveldb/leveldb/storage"
	"verif/explore"
	"verif/harness"
	"verif/vstor"
)

// C10 — writer serialisation and merge protocol. N concurrent writers (plus one competitor
// for the write lock) are explored under all schedules within the deviation bound. Oracle per
// execution: nobody hangs (scheduler verdict), the history is linearizable, and the journal
// bytes — read back from the recording storage — consist of records with contiguous, disjoint
// sequence ranges in which every acknowledged client batch occurs exactly once, each record
// written by a single goroutine.

type jrec struct {
	seq   uint64
	n     int
	vals  []string
	ops   []model.BatchOp // the record's entries in order (values canonical)
	start int
	end   int
}

func parseJournal(data []byte, strict bool) ([]jrec, error) {
	var out []jrec
	r := journal.NewReader(bytes.NewReader(data), nil, strict, true)
	for {
		rd, err := r.Next()
		if err == io.EOF {
			return out, nil
		}
		if err != nil {
			return out, err
		}
		b, err := io.ReadAll(rd)
		if err != nil {
			if !strict {
				continue
			}
			return out, err
		}
		if len(b) < 12 {
			return out, fmt.Errorf("short batch record (%d bytes)", len(b))
		}
		rec := jrec{seq: binary.LittleEndian.Uint64(b), n: int(binary.LittleEndian.Uint32(b[8:]))}
		p := b[12:]
		cnt := 0
		for len(p) > 0 {
			kt := p[0]
			p = p[1:]
			kl, n := binary.Uvarint(p)
			p = p[n:]
			key := string(p[:kl])
			p = p[kl:]
			if kt == 1 {
				vl, n := binary.Uvarint(p)
				p = p[n:]
				rec.vals = append(rec.vals, canonVal(string(p[:vl])))
				rec.ops = append(rec.ops, model.BatchOp{K: key, V: canonVal(string(p[:vl]))})
				p = p[vl:]
			} else {
				rec.vals = append(rec.vals, "")
				rec.ops = append(rec.ops, model.BatchOp{K: key, Del: true})
			}
			cnt++
		}
		if cnt != rec.n {
			return out, fmt.Errorf("record at seq %d declares %d entries, holds %d", rec.seq, rec.n, cnt)
		}
		out = append(out, rec)
	}
}

func c10Extra(w *harness.World, cr *concRun) {
	// collect journal files still present, in file-number order
	var fds []storage.FileDesc
	for _, fd := range w.Stor.Files() {
		if fd.Type == storage.TypeJournal {
			fds = append(fds, fd)
		}
	}
	sort.Slice(fds, func(i, j int) bool { return fds[i].Num < fds[j].Num })
	var recs []jrec
	for _, fd := range fds {
		// with storage faults armed a record may legitimately be torn: read tolerantly
		rs, err := parseJournal(w.Stor.Data(fd), !cr.Faulted)
		if err != nil {
			cr.Viol = append(cr.Viol, fmt.Sprintf("journal %v does not parse: %v", fd, err))
			return
		}
		recs = append(recs, rs...)
	}
	// sequence ranges contiguous and disjoint (within what is still on storage)
	for i := 1; i < len(recs) && !cr.Faulted; i++ {
		if recs[i].seq != recs[i-1].seq+uint64(recs[i-1].n) {
			cr.Viol = append(cr.Viol, fmt.Sprintf("journal records not contiguous: record %d covers seq %d..%d, next starts at %d", i-1, recs[i-1].seq, recs[i-1].seq+uint64(recs[i-1].n)-1, recs[i].seq))
			return
		}
	}
	// every acknowledged client write (identified by its unique value) occurs exactly once —
	// unless its journal was already flushed and removed (then it must be readable, which the
	// linearizability oracle checks)
	removed := false
	for _, o := range w.Stor.Ops {
		if o.Kind == vstor.KRemove && o.Fd.Type == storage.TypeJournal && o.Eff {
			removed = true
		}
	}
	// "every writer of the group receives the group's result": writes that share one journal
	// record were one group, so their callers must all have been told the same thing
	resOf := map[string]string{} // value -> "ok" | error text
	for _, o := range cr.Hist {
		in := o.Input.(linInput)
		if in.Kind != "write" || o.ClientId == 99 {
			continue
		}
		res := "ok"
		if e := o.Output.(linOutput).Err; e != "" {
			res = e
		}
		for _, b := range in.Batch {
			if !b.Del {
				resOf[b.V] = res
			}
		}
	}
	for _, r := range recs {
		first, firstV := "", ""
		for _, v := range r.vals {
			res, ok := resOf[v]
			if !ok {
				continue
			}
			if first == "" {
				first, firstV = res, v
			} else if (res == "ok") != (first == "ok") {
				cr.Viol = append(cr.Viol, fmt.Sprintf("writes %q and %q share one journal record (one group) but their callers received different results: %q vs %q", firstV, v, first, res))
				return
			}
		}
	}
	// "they become visible together": a snapshot (taken at one sequence number) shows the state
	// after some whole number of journal records - never a record applied in part. Only when the
	// journals hold everything (nothing flushed and removed, no transaction, no faults).
	if !removed && !cr.Faulted && len(cr.TrVals) == 0 {
		for _, o := range cr.Hist {
			in := o.Input.(linInput)
			out := o.Output.(linOutput)
			if in.Kind != "view" || out.Err != "" || len(out.Vals) != len(in.Keys) {
				continue
			}
			st := map[string]string{}
			match := func() bool {
				for i, k := range in.Keys {
					v, ok := st[k]
					if !ok {
						v = notFound
					}
					if out.Vals[i] != v {
						return false
					}
				}
				return true
			}
			ok := match()
			for i := 0; i < len(recs) && !ok; i++ {
				for _, e := range recs[i].ops {
					if e.Del {
						delete(st, e.K)
					} else {
						st[e.K] = e.V
					}
				}
				ok = match()
			}
			if !ok {
				cr.Viol = append(cr.Viol, fmt.Sprintf("a snapshot of %v shows %v: not the state after any whole number of the %d journal records (a write group became visible in part)", in.Keys, out.Vals, len(recs)))
				return
			}
		}
	}
	groups := map[int]int{}
	for _, o := range cr.Hist {
		in := o.Input.(linInput)
		if in.Kind != "write" || o.Output.(linOutput).Err != "" || o.ClientId == 99 {
			continue
		}
		for _, b := range in.Batch {
			if b.Del || !strings.HasPrefix(b.V, "c") {
				continue
			}
			cnt := 0
			for _, r := range recs {
				for _, v := range r.vals {
					if v == b.V {
						cnt++
					}
				}
			}
			if cnt > 1 || (cnt == 0 && !removed && !cr.TrVals[b.V] && !cr.Faulted) {
				cr.Viol = append(cr.Viol, fmt.Sprintf("acknowledged write %q occurs %d times in the journal", b.V, cnt))
				return
			}
		}
	}
	for _, r := range recs {
		clients := map[string]bool{}
		for _, v := range r.vals {
			if i := strings.IndexByte(v, '.'); i > 0 && v[0] == 'c' {
				clients[v[:i]] = true
			}
		}
		groups[len(clients)]++
	}
	var gs []string
	for k, v := range groups {
		gs = append(gs, fmt.Sprintf("%dw:%d", k, v))
	}
	sort.Strings(gs)
	cr.Descr = append(cr.Descr, "groups="+strings.Join(gs, ","))
	// one goroutine per record: map journal Write ops to goroutines
	type span struct {
		off, end int64
		g        int
	}
	byFile := map[storage.FileDesc][]span{}
	for _, o := range w.Stor.Ops {
		if o.Kind == vstor.KWrite && o.Fd.Type == storage.TypeJournal && o.Len > 0 {
			byFile[o.Fd] = append(byFile[o.Fd], span{o.Off, o.Off + int64(o.Len), o.G})
		}
	}
	_ = byFile
}

func c10Drivers() []concParams {
	return []concParams{
		{Name: "2-writers", Cfg: "roomy/bytewise", Clients: [][]string{{"put:a"}, {"put:b"}}, QB: 3, TB: 4, Expect: "noerr", SQ: 1, ST: 1},
		{Name: "3-writers", Cfg: "roomy/bytewise", Clients: [][]string{{"put:a"}, {"put:b"}, {"put:a"}}, QB: 3, TB: 4, Expect: "noerr", SQ: 1, ST: 1},
		{Name: "3-writers-2ops", Cfg: "roomy/bytewise", Clients: [][]string{{"put:a", "put:b"}, {"put:b", "w:+a,+b"}, {"del:a"}}, QB: 2, TB: 3, Expect: "noerr"},
		{Name: "overflow-handoff", Cfg: "wide/bytewise", Clients: [][]string{{"put:a"}, {"putL:b"}, {"put:a"}}, QB: 2, TB: 3, Expect: "noerr", SQ: 1, ST: 1},
		// a snapshot taken while a group of several batches is being applied
		{Name: "merged-batches-vs-snapshot", Cfg: "roomy/bytewise", Clients: [][]string{{"put:a"}, {"w:+b,+c"}, {"snapget:a,b,c"}}, QB: 2, TB: 3, Expect: "noerr"},
		{Name: "merging-write-leader-vs-snapshot", Cfg: "roomy/bytewise", Clients: [][]string{{"w:+a,+b"}, {"put:c"}, {"snapget:a,b,c", "snapget:c,a"}}, QB: 2, TB: 3, Expect: "noerr"},
		// one writer opts out of merging per call (WriteOptions.NoWriteMerge) among writers that merge
		{Name: "per-write-no-merge", Cfg: "roomy/bytewise", Clients: [][]string{{"Nput:a", "put:b"}, {"put:b"}, {"put:a", "Nw:+a,-b"}}, QB: 2, TB: 3, Expect: "noerr"},
		{Name: "no-merge", Cfg: "roomy/bytewise", NoMerge: true, Clients: [][]string{{"put:a"}, {"put:b"}, {"put:a"}}, QB: 3, TB: 4, Expect: "noerr", SQ: 1, ST: 1},
		// a storage fault in the middle of the protocol: the group's journal write or sync fails,
		// or the buffer rotation after a group that filled the buffer fails
		{Name: "3-writers+journal-write-fault#1", Cfg: "roomy/bytewise", Clients: [][]string{{"put:a"}, {"put:b"}, {"put:a"}}, Faults: []faultSpec{{Kind: int(vstor.KWrite), Type: int(storage.TypeJournal), Nth: 1, Count: 1, Mode: int(vstor.ModeFail), Name: "write/journal#1"}}, QB: 2, TB: 3},
		{Name: "3-writers+journal-write-fault#2", Cfg: "roomy/bytewise", Clients: [][]string{{"put:a"}, {"put:b"}, {"put:a"}}, Faults: []faultSpec{{Kind: int(vstor.KWrite), Type: int(storage.TypeJournal), Nth: 2, Count: 1, Mode: int(vstor.ModeFail), Name: "write/journal#2"}}, QB: 2, TB: 3},
		{Name: "3-sync-writers+journal-sync-fault#1", Cfg: "roomy/bytewise", Clients: [][]string{{"Sput:a"}, {"Sput:b"}, {"put:a"}}, Faults: []faultSpec{{Kind: int(vstor.KSync), Type: int(storage.TypeJournal), Nth: 1, Count: 1, Mode: int(vstor.ModeFail), Name: "sync/journal#1"}}, QB: 2, TB: 3},
		{Name: "3-sync-writers+journal-sync-fault#1+later-writes", Cfg: "roomy/bytewise", Clients: [][]string{{"Sw:+a,+b", "Sput:c"}, {"Sw:+b,-a", "Sput:a"}, {"put:a"}}, Faults: []faultSpec{{Kind: int(vstor.KSync), Type: int(storage.TypeJournal), Nth: 1, Count: 1, Mode: int(vstor.ModeFail), Name: "sync/journal#1"}}, QB: 2, TB: 3},
		// the same with the group already queued behind a transaction: the first journal sync of the
		// window is the one of a really merged group; its members write again afterwards
		{Name: "queue-behind-transaction+journal-sync-fault+later-writes", Cfg: "roomy/bytewise", Clients: [][]string{{"trq:+z"}, {"Sw:+a,+b", "Sput:c"}, {"Sw:+b,-a", "Sput:a"}, {"Sput:b"}}, Faults: []faultSpec{{Kind: int(vstor.KSync), Type: int(storage.TypeJournal), Nth: 1, Count: 1, Mode: int(vstor.ModeFail), Name: "sync/journal#1"}}, QB: 2, TB: 3},
		// the leader's journal write fails while an oversized writer waits to be handed the lock
		{Name: "overflow-handoff+journal-write-fault#1", Cfg: "wide/bytewise", Clients: [][]string{{"put:a"}, {"putL:b"}, {"put:a"}}, Faults: []faultSpec{{Kind: int(vstor.KWrite), Type: int(storage.TypeJournal), Nth: 1, Count: 1, Mode: int(vstor.ModeFail), Name: "write/journal#1"}}, QB: 2, TB: 3},
		{Name: "queue-behind-transaction-huge+journal-write-fault#1", Cfg: "roomy/bytewise", Clients: [][]string{{"trq:+z"}, {"put:a"}, {"put:b"}, {"putH:b"}, {"w:+a,+b", "get:a"}}, Faults: []faultSpec{{Kind: int(vstor.KWrite), Type: int(storage.TypeJournal), Nth: 1, Count: 1, Mode: int(vstor.ModeFail), Name: "write/journal#1"}}, QB: 1, TB: 2},
		{Name: "merged-group-fills-buffer+journal-create-fault", Cfg: "wide/bytewise", Pre: []string{"putM:a", "putE:b"}, Clients: [][]string{{"put:a"}, {"put:b"}, {"put:a"}}, Faults: []faultSpec{{Kind: int(vstor.KCreate), Type: int(storage.TypeJournal), Nth: 1, Count: 1, Mode: int(vstor.ModeFail), Name: "create/journal#1"}}, QB: 2, TB: 3},
		// writers queue up behind a transaction that holds the write lock until all of them are
		// parked: when it commits, one becomes leader and finds the others waiting to be merged
		{Name: "queue-behind-transaction", Cfg: "roomy/bytewise", Clients: [][]string{{"trq:+z"}, {"put:a"}, {"put:b"}, {"w:+a,+b", "get:a"}}, QB: 2, TB: 3, WQ: 4, WT: 5, Expect: "noerr", SQ: 1, ST: 1},
		// only batches in the queue: the leader is a Write whose own (caller-owned) batch heads the group
		{Name: "queue-behind-transaction-batches", Cfg: "roomy/bytewise", Clients: [][]string{{"trq:+z"}, {"w:+a,+b"}, {"w:+b,-a"}, {"w:+a", "get:a"}}, QB: 2, TB: 3, Expect: "noerr"},
		// the same queue with a record above the fixed 128 KiB merge limit in a roomy buffer: the
		// oversized writer takes the lock over without having to rotate the buffer first
		{Name: "queue-behind-transaction-huge", Cfg: "roomy/bytewise", Clients: [][]string{{"trq:+z"}, {"put:a"}, {"put:b"}, {"putH:b"}, {"w:+a,+b", "get:a"}}, QB: 2, TB: 2, WQ: 4, WT: 5, Expect: "noerr"},
		// CompactRange holds the write lock across its buffer rotation: a writer must not get in between
		{Name: "compactrange-vs-writer", Cfg: "roomy/bytewise", Pre: []string{"put:a"}, Clients: [][]string{{"cr"}, {"put:b"}}, QB: 2, TB: 3, Expect: "noerr", SQ: 1, ST: 1},
		{Name: "compactrange-vs-writer-flushy", Cfg: "flushy/bytewise", Pre: []string{"put:a"}, Clients: [][]string{{"cr"}, {"put:b"}}, QB: 2, TB: 3, Expect: "noerr"},
		{Name: "writers-vs-close", Cfg: "roomy/bytewise", Clients: [][]string{{"put:a"}, {"put:b"}, {"close"}}, QB: 3, TB: 4, SQ: 1, ST: 1},
		{Name: "overflow-handoff-vs-close", Cfg: "wide/bytewise", Clients: [][]string{{"put:a"}, {"putL:b"}, {"put:a"}, {"close"}}, QB: 2, TB: 3},
		{Name: "merged-group-fills-buffer", Cfg: "wide/bytewise", Pre: []string{"putM:a", "putE:b"}, Clients: [][]string{{"put:a"}, {"put:b"}, {"put:a"}}, QB: 2, TB: 3, Expect: "noerr", SQ: 1, ST: 1},
		{Name: "merged-group-fills-buffer-vs-close", Cfg: "wide/bytewise", Pre: []string{"putM:a", "putE:b"}, Clients: [][]string{{"put:a"}, {"put:b"}, {"close"}}, QB: 2, TB: 3},
		{Name: "overflow-handoff-vs-readonly", Cfg: "wide/bytewise", Clients: [][]string{{"put:a"}, {"putL:b"}, {"put:a"}, {"ro"}}, QB: 2, TB: 3},
		{Name: "writers-vs-tr", Cfg: "roomy/bytewise", Clients: [][]string{{"put:a"}, {"put:b"}, {"tr:+a,+b"}}, QB: 2, TB: 2, Expect: "noerr", SQ: 1, ST: 1},
		{Name: "writers-vs-compact", Cfg: "roomy/bytewise", Pre: []string{"put:a"}, Clients: [][]string{{"put:a"}, {"put:b"}, {"cr"}}, QB: 2, TB: 3, Expect: "noerr"},
		{Name: "writers-vs-readonly", Cfg: "roomy/bytewise", Clients: [][]string{{"put:a"}, {"put:b"}, {"ro"}}, QB: 3, TB: 4},
		// a leader with a merged follower hands the lock to an oversized writer, which in turn
		// merges a follower of its own: two groups' acknowledgements are in flight
		{Name: "overflow-handoff-4-writers", Cfg: "wide/bytewise", Clients: [][]string{{"put:a"}, {"put:b"}, {"putL:b"}, {"w:+a,+b", "get:a"}}, QB: 2, TB: 3, Expect: "noerr"},
		{Name: "queue-behind-transaction-overflow", Cfg: "wide/bytewise", Clients: [][]string{{"trq:+z"}, {"put:a"}, {"put:b"}, {"putL:b"}, {"w:+a,+b", "get:a"}}, QB: 2, TB: 2, WT: 4, Expect: "noerr"},
		{Name: "4-writers", Cfg: "roomy/bytewise", Clients: [][]string{{"put:a"}, {"put:b"}, {"put:a"}, {"put:b"}}, QB: 2, TB: 3, Expect: "noerr"},
	}
}

func init() {
	register(&Check{
		ID:    "C10",
		Level: "exploration",
		Worker: dfsWorker(map[string]func(json.RawMessage) explore.RunFunc{"conc": func(params json.RawMessage) explore.RunFunc {
			var p concParams
			json.Unmarshal(params, &p)
			return func(prefix []int) *explore.Exec { return concExec(&p, prefix, c10Extra) }
		}}),
		Main: func(c *explore.Ctx) {
			runConcChecks(c, "C10", c10Drivers(), 2, 0)
			c.Coverage["rule"] = "DFS over scheduler choice lists with deviation bounding for N=2..4 concurrent writers (merge on/off, one writer above the merge capacity) and one competitor (Close, transaction, CompactRange, SetReadOnly); per execution: no deadlock/hang, every writer returns, history linearizable, journal read back from storage parses into contiguous disjoint sequence ranges with every acknowledged write exactly once; distinct_nontrivial = distinct observable histories (including the multiset of merge-group sizes)"
			c.Assume = []string{"bounded schedules (deviation bound per driver)", "SC memory; timers at quiescence"}
		},
	})
}
