package vsched

// Timer is a virtual-time timer. It fires only when the scheduler advances the clock,
// i.e. when no goroutine is enabled.
type Timer struct {
	when   int64
	period int64
	active bool
	seq    int
	fn     func(now int64)
}

func (t *Timer) fire(s *Sched) {
	if t.period > 0 {
		t.when += t.period
	} else {
		t.active = false
	}
	t.fn(s.now)
}

// AddTimer registers a timer firing after d ns (and then every period ns if period > 0).
func AddTimer(d, period int64, fn func(now int64)) *Timer {
	t := &Timer{fn: fn, period: period}
	s := S
	if s == nil || s.aborting {
		return t
	}
	Event(OpYield, objClock, true)
	s.seqTimer++
	t.seq = s.seqTimer
	t.when = s.now + d
	t.active = true
	s.timers = append(s.timers, t)
	return t
}

// Stop deactivates the timer; reports whether it was active.
func (t *Timer) Stop() bool {
	Event(OpYield, objClock, true)
	was := t.active
	t.active = false
	return was
}

// Reset re-arms the timer to fire after d; reports whether it had been active.
func (t *Timer) Reset(d int64) bool {
	was := t.active
	s := S
	if s == nil || s.aborting {
		return was
	}
	Event(OpYield, objClock, true)
	t.when = s.now + d
	if !t.active {
		t.active = true
		found := false
		for _, x := range s.timers {
			if x == t {
				found = true
				break
			}
		}
		if !found {
			s.seqTimer++
			t.seq = s.seqTimer
			s.timers = append(s.timers, t)
		}
	}
	return was
}

// PendingTimers returns the number of active timers (diagnostics / state keys).
func PendingTimers() int {
	if S == nil {
		return 0
	}
	n := 0
	for _, t := range S.timers {
		if t.active {
			n++
		}
	}
	return n
}
