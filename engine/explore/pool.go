// Package explore holds the search drivers shared by the checks: a pool of worker
// subprocesses (one execution engine per process, since the scheduler is process-global),
// evidence writing, and known-findings matching.
package explore

import (
	"bufio"
	"encoding/json"
	"fmt"
	"io"
	"os"
	"os/exec"
	"runtime"
	"strconv"
	"sync"
	"sync/atomic"
	"syscall"
	"time"

	"verif/vsched"
)

// WorkerError classifies a failed task. "timeout" is a wall-clock limit of the machinery and
// depends on machine load: it is never evidence about the code under test (IsTimeout), the
// run is merely incomplete. "cpu-loop" is the worker's own CPU-time watchdog (a goroutine of
// the code under test consumed CPUStallLimit of processor time without reaching a
// scheduling point). "died" is a crashed worker process.
type WorkerError struct{ Kind, Msg string }

func (e *WorkerError) Error() string { return e.Msg }

// IsTimeout reports whether err is the load-dependent wall-clock limit.
func IsTimeout(err error) bool {
	w, ok := err.(*WorkerError)
	return ok && w.Kind == "timeout"
}

// CrashViol turns a failed task into violation text: nothing for the load-dependent wall-clock
// timeout (counted in WorkerTimeouts; the run is reported as not exhaustive), the worker's
// message otherwise (CPU-loop watchdog, or a worker process that died twice on the task).
func CrashViol(err error) []string {
	if err == nil || IsTimeout(err) {
		return nil
	}
	return []string{"worker failed: " + err.Error()}
}

// WorkerTimeouts counts wall-clock timeouts of this run (reported in the evidence; a run
// with timeouts is not exhaustive).
var WorkerTimeouts int64

// CPUStallLimit: processor time one execution may burn between two scheduling points.
const CPUStallLimit = 90 * time.Second

// Pool runs tasks on worker subprocesses of the current binary.
type Pool struct {
	N       int
	Args    []string // arguments after the executable, e.g. ["worker","C01"]
	Timeout time.Duration
	mu      sync.Mutex
	workers []*worker
	Crashes int
}

type worker struct {
	cmd *exec.Cmd
	in  io.WriteCloser
	out *bufio.Reader
}

func NewPool(n int, args ...string) *Pool {
	if n <= 0 {
		n = runtime.NumCPU()
		// VERIF_WORKERS caps the worker subprocesses (background sweeps next to other work)
		if k, err := strconv.Atoi(os.Getenv("VERIF_WORKERS")); err == nil && k > 0 {
			n = k
		}
	}
	return &Pool{N: n, Args: args, Timeout: 300 * time.Second}
}

func (p *Pool) spawn() (*worker, error) {
	cmd := exec.Command(os.Args[0], p.Args...)
	cmd.Env = append(os.Environ(), "GOMAXPROCS=1", "GOGC=400", "VERIF_WORKER=1")
	in, err := cmd.StdinPipe()
	if err != nil {
		return nil, err
	}
	out, err := cmd.StdoutPipe()
	if err != nil {
		return nil, err
	}
	cmd.Stderr = os.Stderr
	if err := cmd.Start(); err != nil {
		return nil, err
	}
	return &worker{cmd: cmd, in: in, out: bufio.NewReaderSize(out, 1<<20)}, nil
}

func (w *worker) kill() {
	w.in.Close()
	w.cmd.Process.Kill()
	w.cmd.Wait()
}

// call sends one task and waits for its result line ("R <json>").
func (w *worker) call(task []byte, timeout time.Duration) ([]byte, error) {
	type res struct {
		b   []byte
		err error
	}
	ch := make(chan res, 1)
	go func() {
		if _, err := w.in.Write(append(task, '\n')); err != nil {
			ch <- res{nil, err}
			return
		}
		for {
			line, err := w.out.ReadBytes('\n')
			if err != nil {
				ch <- res{nil, &WorkerError{Kind: "died", Msg: fmt.Sprintf("worker died: %v", err)}}
				return
			}
			if len(line) > 2 && line[0] == 'R' && line[1] == ' ' {
				ch <- res{line[2 : len(line)-1], nil}
				return
			}
			if len(line) > 2 && line[0] == 'H' && line[1] == ' ' {
				ch <- res{nil, &WorkerError{Kind: "cpu-loop", Msg: string(line[2 : len(line)-1])}}
				return
			}
		}
	}()
	select {
	case r := <-ch:
		return r.b, r.err
	case <-time.After(timeout):
		atomic.AddInt64(&WorkerTimeouts, 1)
		return nil, &WorkerError{Kind: "timeout", Msg: fmt.Sprintf("worker wall-clock timeout after %v", timeout)}
	}
}

// Map runs every task; results are delivered (serialised) to onResult in completion order.
// A task whose worker crashed or timed out is delivered with a non-nil error.
func (p *Pool) Map(tasks [][]byte, onResult func(i int, res []byte, err error)) {
	if len(tasks) == 0 {
		return
	}
	idx := make(chan int, len(tasks))
	for i := range tasks {
		idx <- i
	}
	close(idx)
	var wg sync.WaitGroup
	var rmu sync.Mutex
	n := p.N
	if n > len(tasks) {
		n = len(tasks)
	}
	for k := 0; k < n; k++ {
		wg.Add(1)
		go func() {
			defer wg.Done()
			w := p.get()
			for i := range idx {
				if w == nil {
					var err error
					w, err = p.spawn()
					if err != nil {
						rmu.Lock()
						onResult(i, nil, err)
						rmu.Unlock()
						continue
					}
				}
				b, err := w.call(tasks[i], p.Timeout)
				if err != nil {
					w.kill()
					w = nil
					p.mu.Lock()
					p.Crashes++
					p.mu.Unlock()
					// a died or timed-out worker may be the machine (memory pressure, load), not
					// the task: one retry on a fresh worker with twice the limit decides
					if we, ok := err.(*WorkerError); ok && we.Kind != "cpu-loop" {
						if w2, e2 := p.spawn(); e2 == nil {
							b, err = w2.call(tasks[i], 2*p.Timeout)
							if err != nil {
								w2.kill()
							} else {
								w = w2
							}
						}
					}
				}
				rmu.Lock()
				onResult(i, b, err)
				rmu.Unlock()
			}
			if w != nil {
				p.put(w)
			}
		}()
	}
	wg.Wait()
}

func (p *Pool) get() *worker {
	p.mu.Lock()
	defer p.mu.Unlock()
	if n := len(p.workers); n > 0 {
		w := p.workers[n-1]
		p.workers = p.workers[:n-1]
		return w
	}
	return nil
}

func (p *Pool) put(w *worker) {
	p.mu.Lock()
	p.workers = append(p.workers, w)
	p.mu.Unlock()
}

// Close terminates the workers.
func (p *Pool) Close() {
	p.mu.Lock()
	defer p.mu.Unlock()
	for _, w := range p.workers {
		w.in.Close()
		done := make(chan struct{})
		go func() { w.cmd.Wait(); close(done) }()
		select {
		case <-done:
		case <-time.After(2 * time.Second):
			w.cmd.Process.Kill()
		}
	}
	p.workers = nil
}

// ServeWorker is the worker side: reads one JSON task per line, answers "R <json>".
func ServeWorker(exec func(task []byte) []byte) {
	in := bufio.NewReaderSize(os.Stdin, 1<<20)
	out := bufio.NewWriter(os.Stdout)
	go cpuWatchdog()
	for {
		line, err := in.ReadBytes('\n')
		if len(line) > 1 {
			res := exec(line[:len(line)-1])
			out.WriteString("R ")
			out.Write(res)
			out.WriteByte('\n')
			out.Flush()
		}
		if err != nil {
			return
		}
	}
}

// MustJSON marshals or panics.
func MustJSON(v any) []byte {
	b, err := json.Marshal(v)
	if err != nil {
		panic(err)
	}
	return b
}

func cpuSeconds() float64 {
	var ru syscall.Rusage
	if syscall.Getrusage(syscall.RUSAGE_SELF, &ru) != nil {
		return 0
	}
	return float64(ru.Utime.Sec+ru.Stime.Sec) + float64(ru.Utime.Usec+ru.Stime.Usec)/1e6
}

// cpuWatchdog ends the worker with an "H" line when an execution under the cooperative
// scheduler has consumed CPUStallLimit of *processor* time (not wall time: immune to machine
// load) without passing a scheduling point: some goroutine of the code under test is in a loop
// that no lock, channel or atomic operation interrupts, which no step budget can see.
func cpuWatchdog() {
	last := atomic.LoadUint64(&vsched.Beat)
	mark := cpuSeconds()
	for {
		time.Sleep(500 * time.Millisecond)
		b := atomic.LoadUint64(&vsched.Beat)
		now := cpuSeconds()
		if b != last || atomic.LoadInt32(&vsched.InRun) == 0 {
			last, mark = b, now
			continue
		}
		limit := CPUStallLimit.Seconds()
		if v, err := strconv.Atoi(os.Getenv("VERIF_STALL_S")); err == nil && v > 0 {
			limit = float64(v) // testing the watchdog itself
		}
		if now-mark >= limit {
			fmt.Printf("H execution consumed %.0f s of CPU time without reaching a scheduling point (unbounded loop in the code under test)\n", now-mark)
			os.Exit(3)
		}
	}
}
