#!/bin/bash
# usage: confirm_seed.sh <dir with patch.diff + demo_test.go> <log>  — confirms a seeded change in a scratch worktree of /repo:
# demo fails with the change, passes without it, existing suite passes with it.
set -u
export GOFLAGS=-mod=mod GOPROXY=off GOSUMDB=off GOTOOLCHAIN=local
SRC="$1"; LOG="$2"; PKG="${3:-leveldb}"
WT="$(mktemp -d /tmp/seedconfirm.XXXXXX)"
git -C /repo worktree add -f "$WT" HEAD -q
cd "$WT"
{
echo "== confirm $(basename "$SRC") at $(git rev-parse --short HEAD)"
git apply "$SRC/patch.diff" || { echo "PATCH-DOES-NOT-APPLY"; }
cp "$SRC/demo_test.go" $PKG/zz_seed_demo_test.go
RUN="$(grep -oE 'func (Test[A-Za-z0-9_]+)' $PKG/zz_seed_demo_test.go | awk '{print $2}' | paste -sd'|')"
echo "-- demo with change (expect FAIL): $RUN"
go test -vet=off -count=1 -timeout 10m ./$PKG/ -run "^($RUN)\$" 2>&1 | tail -4
git apply -R "$SRC/patch.diff"
echo "-- demo without change (expect ok)"
go test -vet=off -count=1 -timeout 10m ./$PKG/ -run "^($RUN)\$" 2>&1 | tail -2
git apply "$SRC/patch.diff"
rm -f $PKG/zz_seed_demo_test.go
echo "-- existing suite with change (expect all ok)"
go test -vet=off -count=1 -timeout 25m ./... 2>&1 | grep -v "no test files" | tail -12
} >> "$LOG" 2>&1
cd /
git -C /repo worktree remove --force "$WT"
