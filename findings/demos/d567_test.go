package findings

import (
	"testing"
	"time"

	"github.com/syndtr/goleveldb/leveldb"
	"github.com/syndtr/goleveldb/leveldb/storage"
)

// returns runs f and fails the test if it has not returned after d.
func returns(t *testing.T, what string, d time.Duration, f func()) {
	t.Helper()
	done := make(chan struct{})
	go func() { f(); close(done) }()
	select {
	case <-done:
	case <-time.After(d):
		t.Fatalf("%s did not return within %v (lock kept by a failed call)", what, d)
	}
}

func newFaulty() *faulty {
	return &faulty{Storage: storage.NewMemStorage(), failSync: map[storage.FileType]int{}, failCreate: map[storage.FileType]int{}}
}

func (f *faulty) arm(on bool) {
	f.mu.Lock()
	f.armed = on
	f.mu.Unlock()
}

// D7 (C09): OpenTransaction returned an error from its pre-flush while holding the write lock.
func TestD7_OpenTransactionErrorKeepsWriteLock(t *testing.T) {
	f := newFaulty()
	o := flushy()
	o.WriteBuffer = 1 << 20 // the put stays in the write buffer
	db, err := leveldb.Open(f, o)
	if err != nil {
		t.Fatal(err)
	}
	if err := db.Put([]byte("a"), []byte("v1"), nil); err != nil {
		t.Fatal(err)
	}
	f.failCreate[storage.TypeJournal] = 1
	f.arm(true)
	if _, err := db.OpenTransaction(); err == nil {
		t.Fatal("expected OpenTransaction to fail (journal create fault during the pre-flush)")
	}
	f.arm(false)
	returns(t, "Put after a failed OpenTransaction", 3*time.Second, func() { db.Put([]byte("b"), []byte("v2"), nil) })
	returns(t, "Close", 3*time.Second, func() { db.Close() })
}

// D5 (C09): Transaction.Commit returned after three failed attempts with the
// compaction-commit lock held.
func TestD5_FailedCommitKeepsCommitLock(t *testing.T) {
	f := newFaulty()
	db, err := leveldb.Open(f, flushy())
	if err != nil {
		t.Fatal(err)
	}
	tr, err := db.OpenTransaction()
	if err != nil {
		t.Fatal(err)
	}
	tr.Put([]byte("a"), []byte("v1"), nil)
	f.failSync[storage.TypeManifest] = 3
	f.arm(true)
	if err := tr.Commit(); err == nil {
		t.Fatal("expected Commit to fail")
	}
	f.arm(false)
	tr.Discard()
	returns(t, "second transaction after a failed Commit", 5*time.Second, func() {
		tr2, err := db.OpenTransaction()
		if err != nil {
			return
		}
		tr2.Put([]byte("b"), []byte("v2"), nil)
		if err := tr2.Commit(); err != nil {
			tr2.Discard()
		}
	})
	returns(t, "Close", 5*time.Second, func() { db.Close() })
}

// D6 (C09/C11): Write of a batch larger than the write buffer commits an internal
// transaction; when that commit failed, the transaction was neither discarded nor
// reachable by the caller, so the write lock was held until Close.
func TestD6_FailedLargeBatchKeepsWriteLock(t *testing.T) {
	f := newFaulty()
	db, err := leveldb.Open(f, flushy())
	if err != nil {
		t.Fatal(err)
	}
	b := new(leveldb.Batch)
	b.Put([]byte("a"), []byte("v1"))
	b.Put([]byte("b"), []byte("v1"))
	f.failSync[storage.TypeManifest] = 3
	f.arm(true)
	if err := db.Write(b, nil); err == nil {
		t.Fatal("expected the large-batch Write to fail")
	}
	f.arm(false)
	returns(t, "Put after a failed large-batch Write", 3*time.Second, func() { db.Put([]byte("c"), []byte("v2"), nil) })
	returns(t, "Close", 3*time.Second, func() { db.Close() })
}
