package checks

import (
	"encoding/json"

	"verif/explore"
)

// C09 — no call blocks forever and Close always returns.
// (a) every single-fault plan of the C08 engine is followed by a probe suite (Put, Get,
//     iterator, transactions, CompactRange, Close): each call must return; the scheduler gives
//     an exact verdict (no goroutine enabled and no timer = deadlock; virtual clock passing
//     one hour with the client still blocked = hang).
// (b) schedule search (deviation bound) of clients racing Close / SetReadOnly / transactions.

func c09Drivers() []concParams {
	return []concParams{
		{Name: "writers-vs-close", Cfg: "default/bytewise", Clients: [][]string{{"put:a", "put:b"}, {"put:b"}, {"close"}}},
		{Name: "tr-vs-writer-vs-close", Cfg: "bigbatch/bytewise", Clients: [][]string{{"tr:+a,+b"}, {"put:a"}, {"close"}}, QB: 1, TB: 2},
		{Name: "compact-vs-close", Cfg: "flushy/bytewise", Pre: []string{"put:a", "put:b"}, Clients: [][]string{{"put:a"}, {"cr"}, {"close"}}, QB: 1, TB: 2},
		{Name: "readers-vs-close", Cfg: "tinycache/bytewise", Pre: []string{"put:a", "put:b", "q"}, Clients: [][]string{{"get:a", "iterscan"}, {"snapget:a,b"}, {"close"}}, QB: 1, TB: 2},
		{Name: "writer-vs-readonly", Cfg: "default/bytewise", Clients: [][]string{{"put:a", "put:b"}, {"ro"}, {"get:a"}}},
		{Name: "two-tables-one-slot-vs-close", Cfg: "tinycache/bytewise", Pre: []string{"put:a", "put:b", "put:c", "cr", "q"}, Clients: [][]string{{"get:a", "get:c", "get:b"}, {"close"}}, QB: 2, TB: 3},
		{Name: "close-vs-close", Cfg: "default/bytewise", Clients: [][]string{{"put:a"}, {"close"}, {"close"}}},
	}
}

func init() {
	register(&Check{
		ID:    "C09",
		Level: "exploration",
		Worker: func(task []byte) []byte {
			// two task shapes share the worker: fault plans and schedule subtrees
			var probe struct {
				Scenario string `json:"scenario"`
			}
			json.Unmarshal(task, &probe)
			if probe.Scenario != "" {
				return dfsWorker(map[string]func(json.RawMessage) explore.RunFunc{"conc": concScenario})(task)
			}
			return faultWorker(task)
		},
		Main: func(c *explore.Ctx) {
			quick := c.Tier == "quick"
			cfgs := []string{"flushy/bytewise", "rot/bytewise", "bigbatch/bytewise"}
			hist := append([][]string{}, c04Long[:3]...)
			depth := 2
			if !quick {
				depth = 3
				hist = append([][]string{}, c04Long...)
			}
			for _, s := range genSeqs(c08Alpha, depth) {
				if len(s) > 0 {
					hist = append(hist, s)
				}
			}
			runFaultCheck(c, "C09", cfgs, hist, quick, false)
			runConcChecks(c, "C09", c09Drivers(), 2, 0)
			c.Coverage["rule"] = "(a) per history x single-fault plan (as C08) the history is followed by a probe suite whose every call must return; (b) DFS over schedules with deviation bounding of clients racing Close / SetReadOnly / transactions / CompactRange; verdict per execution from the scheduler: deadlock (nobody enabled, no timer), hang (virtual clock passes 1h with a client call outstanding), livelock (step budget); distinct_nontrivial = fault plans whose error surfaced + distinct concurrent histories"
			c.Assume = []string{"virtual time: timers fire only when no goroutine is enabled; horizon one virtual hour", "bounded schedules (deviation bound per driver in per_driver)"}
		},
	})
}
