package harness

import (
	"encoding/binary"
	"hash/fnv"
	"sort"

	"github.com/syndtr/goleveldb/leveldb/filter"
)

// ExactFilter is a valid filter policy with its own name and (up to 64-bit hash collisions)
// no false positives: a lookup that consults it with anything but a key that was added - a key
// in the wrong form, the wrong partition, a filter block of another table - is answered
// "absent", so every mistake in filter plumbing turns into a visible miss instead of hiding
// behind the built-in bloom filter's tolerance. All built-in bloom filters share one name
// whatever their bits-per-key, so "tables written under another policy" needs this one.
type ExactFilter struct{ Tag string }

func (f ExactFilter) Name() string { return "verif.ExactSet" + f.Tag }

type exactGen struct{ hs []uint64 }

func hashKey(k []byte) uint64 { h := fnv.New64a(); h.Write(k); return h.Sum64() }

func (f ExactFilter) NewGenerator() filter.FilterGenerator { return &exactGen{} }

func (g *exactGen) Add(key []byte) { g.hs = append(g.hs, hashKey(key)) }

func (g *exactGen) Generate(b filter.Buffer) {
	sort.Slice(g.hs, func(i, j int) bool { return g.hs[i] < g.hs[j] })
	buf := b.Alloc(8 * len(g.hs))
	for i, h := range g.hs {
		binary.LittleEndian.PutUint64(buf[8*i:], h)
	}
	g.hs = g.hs[:0]
}

func (f ExactFilter) Contains(flt, key []byte) bool {
	h := hashKey(key)
	n := len(flt) / 8
	i := sort.Search(n, func(i int) bool { return binary.LittleEndian.Uint64(flt[8*i:]) >= h })
	return i < n && binary.LittleEndian.Uint64(flt[8*i:]) == h
}
