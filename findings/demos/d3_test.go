package findings

import (
	"testing"
	"time"

	"github.com/syndtr/goleveldb/leveldb"
	"github.com/syndtr/goleveldb/leveldb/storage"
)

// D3 (C01/C04/C11): OpenTransaction (also used by Write for a batch larger than the write
// buffer) did not wait for a frozen write buffer that was still being flushed. The
// transaction's tables then sit *below* the older frozen buffer in lookup order: a read
// right after the acknowledged batch returns the overwritten value.
func TestD3_LargeBatchShadowedByPendingFlush(t *testing.T) {
	g := &gate{Storage: storage.NewMemStorage(), opened: make(chan struct{})}
	db, err := leveldb.Open(g, flushy())
	if err != nil {
		t.Fatal(err)
	}
	defer db.Close()
	g.mu.Lock()
	g.armed = true
	g.mu.Unlock()
	// fills the 1-byte write buffer: it is frozen and its flush blocks in the gate
	if err := db.Put([]byte("a"), []byte("v1"), nil); err != nil {
		t.Fatal(err)
	}
	timer := time.AfterFunc(500*time.Millisecond, func() { close(g.opened) })
	defer timer.Stop()
	b := new(leveldb.Batch)
	b.Put([]byte("a"), []byte("v2"))
	b.Delete([]byte("b"))
	if err := db.Write(b, nil); err != nil { // larger than the write buffer: transaction path
		t.Fatal(err)
	}
	mustGet(t, db, "a", "v2")
}
