package checks

import (
	"bytes"
	"encoding/binary"
	"fmt"
	"strings"

	"github.com/syndtr/goleveldb/leveldb"
	"github.com/syndtr/goleveldb/leveldb/opt"
	"github.com/syndtr/goleveldb/leveldb/storage"
	"github.com/syndtr/goleveldb/leveldb/table"
	"verif/explore"
	"verif/harness"
	"verif/vsched"
	"verif/vstor"
)

// C19 — Recover. In every state reached by a breadth-first search (settled with Quiesce and
// closed), the storage is cloned and its manifest/CURRENT are removed, truncated at and around
// every record boundary, or overwritten with garbage; leveldb.Recover must rebuild exactly the
// model contents, with a well-formed LSM tree, and leave an ordinary DB (usable, reopenable
// with Open). In the deepest states one byte in each 16-byte stretch of each table's data
// area is altered as well: Recover must still succeed, keys without any entry in the damaged
// table must read exactly as the model, other keys may only show values once written to them.

var c19Alpha = []string{"put:a", "put:b", "put:c", "del:a", "del:b", "putL:c", "b1", "cr", "q", "re"}

func manifestCuts(data []byte) []int {
	var cuts []int
	seen := map[int]bool{}
	add := func(x int) {
		if x >= 0 && x < len(data) && !seen[x] {
			seen[x] = true
			cuts = append(cuts, x)
		}
	}
	for o := 0; o+7 <= len(data); {
		if jBlock-o%jBlock < 7 {
			o = (o/jBlock + 1) * jBlock
			continue
		}
		n := int(binary.LittleEndian.Uint16(data[o+4:]))
		end := o + 7 + n
		add(o + 3)
		add(end - 1)
		add(end)
		add(end + 1)
		o = end
	}
	add(0)
	return cuts
}

// dataAreaEnd returns the offset where the table's data blocks end (start of the first
// non-data block), from the footer's metaindex/index handles.
func dataAreaEnd(data []byte) int {
	if len(data) < 48 {
		return 0
	}
	f := data[len(data)-48:]
	mo, n1 := binary.Uvarint(f)
	_, n2 := binary.Uvarint(f[n1:])
	io, _ := binary.Uvarint(f[n1+n2:])
	end := int(mo)
	if int(io) < end {
		end = int(io)
	}
	// a filter block, if any, sits before the metaindex block: be conservative and take the
	// first 60% when a filter is configured (callers use no filter in these configs)
	return end
}

func tableUserKeys(data []byte, cfg harness.Config) map[string]bool {
	out := map[string]bool{}
	o := cfg.Options()
	icmp := leveldb.VerifIComparerFull(o.Comparer)
	ro := &opt.Options{Comparer: icmp, Strict: opt.NoStrict, DisableBlockCache: true, DisableBufferPool: true}
	tr, err := table.NewReader(bytes.NewReader(data), int64(len(data)), storage.FileDesc{Type: storage.TypeTable, Num: 1}, nil, nil, ro)
	if err != nil {
		return out
	}
	it := tr.NewIterator(nil, nil)
	for it.Next() {
		if u, _, _, ok := leveldb.VerifParseIKey(it.Key()); ok {
			out[string(u)] = true
		}
	}
	it.Release()
	tr.Release()
	return out
}

// recoverCheck runs Recover on img and compares with the model. exact: keys that must match
// the model exactly (nil = all); written: every value ever written per key.
func recoverCheck(w *harness.World, img *vstor.Stor, what string, loose map[string]bool, r *seqResult) {
	w2 := harness.NewWorld(w.Cfg)
	w2.Stor = img
	w2.Probes = w.Probes
	w2.Step = w.Step + 500 // later writes use values the history never wrote
	db, err := leveldb.Recover(img, w.Cfg.Options())
	if err != nil {
		w.Viol = append(w.Viol, fmt.Sprintf("%s: Recover failed: %v", what, err))
		return
	}
	w2.DB = db
	r.Extra["recover_runs"]++
	if loose == nil {
		w2.M = w.M.Clone()
		w2.CheckDB()
	} else {
		written := map[string]map[string]bool{}
		for _, b := range w.Issued {
			for _, o := range b {
				if !o.Del {
					if written[o.K] == nil {
						written[o.K] = map[string]bool{}
					}
					written[o.K][o.V] = true
				}
			}
		}
		for _, p := range w.Probes {
			v, err := db.Get([]byte(p), nil)
			want, has := w.M.Get(p)
			if !loose[p] {
				switch {
				case err == leveldb.ErrNotFound:
					if has {
						w2.Viol = append(w2.Viol, fmt.Sprintf("Get(%q) not found, but no entry of that key lies in the damaged table (model %q)", p, want))
					}
				case err != nil:
					w2.Viol = append(w2.Viol, fmt.Sprintf("Get(%q) error %v", p, err))
				default:
					if !has || string(v) != want {
						w2.Viol = append(w2.Viol, fmt.Sprintf("Get(%q) = %q, model %v %q (key untouched by the damage)", p, v, has, want))
					}
				}
			} else if err == nil && !written[p][string(v)] {
				w2.Viol = append(w2.Viol, fmt.Sprintf("Get(%q) = %q which was never written to that key", p, v))
			} else if err != nil && err != leveldb.ErrNotFound {
				w2.Viol = append(w2.Viol, fmt.Sprintf("Get(%q) error %v", p, err))
			}
		}
		// continue with whatever the DB now holds as the model
		it := db.NewIterator(nil, nil)
		for it.Next() {
			k, v := string(it.Key()), string(it.Value())
			if !written[k][v] {
				w2.Viol = append(w2.Viol, fmt.Sprintf("scan yields %q=%q which was never written", k, v))
			}
			w2.M.Put(k, v)
		}
		it.Release()
		// point reads agree with that scan straight away (before any compaction rewrites the
		// tables Recover rebuilt)
		if !w2.Failed() {
			w2.CheckDB()
		}
	}
	if !w2.Failed() {
		lv, st := harness.CheckLSM(img, db.VerifState(), w.Cfg)
		r.Extra["lsm_tables_checked"] += st.Tables
		for _, v := range lv {
			w2.Viol = append(w2.Viol, "LSM invariant after Recover: "+v)
		}
	}
	if !w2.Failed() {
		// an ordinary DB afterwards: write, compact, reopen with plain Open
		// (Recover puts every table into level 0, where file-number order need not be recency
		// order: let the automatic level-0 compactions run first and read everything back after
		// each step, before the full manual compaction levels the differences)
		for i, op := range []string{"q", "put:b", "q", "cr", "re", "del:b", "q", "re"} {
			w2.Apply(op)
			if !w2.Failed() && (i == 0 || i == 2 || i == 3) {
				w2.CheckDB() // after the automatic compactions, after a write + more of them, after the manual one
			}
			if w2.Failed() {
				break
			}
		}
		if !w2.Failed() {
			w2.CheckDB()
		}
	}
	for _, v := range w2.Viol {
		w.Viol = append(w.Viol, what+": "+v)
	}
	if w2.DB != nil {
		w2.Close()
	}
}

func init() {
	hk := &seqHooks{After: func(w *harness.World, t *seqTask, r *seqResult) {
		if hasMode(t, "features") {
			return // layout search only
		}
		vsched.Quiesce()
		w.Close()
		base := w.Stor
		meta := base.Meta()
		// 1. manifest and CURRENT gone
		img := base.Clone()
		img.Delete(meta)
		img.ClearMeta()
		recoverCheck(w, img, "manifest and CURRENT removed", nil, r)
		if w.Failed() {
			return
		}
		// 2. CURRENT gone
		img = base.Clone()
		img.ClearMeta()
		recoverCheck(w, img, "CURRENT removed", nil, r)
		if w.Failed() {
			return
		}
		// 3. manifest cut at and around every record boundary
		md := base.Data(meta)
		for _, cut := range manifestCuts(md) {
			img = base.Clone()
			img.SetData(meta, append([]byte(nil), md[:cut]...))
			recoverCheck(w, img, fmt.Sprintf("manifest cut at %d of %d", cut, len(md)), nil, r)
			if w.Failed() {
				return
			}
		}
		// 4. manifest is garbage
		img = base.Clone()
		g := make([]byte, len(md))
		for i := range g {
			g[i] = byte(0xA5 ^ (i * 131))
		}
		img.SetData(meta, g)
		recoverCheck(w, img, "manifest overwritten with garbage", nil, r)
		if w.Failed() || !hasMode(t, "damage") {
			return
		}
		// 5. table damage: one byte per 16-byte stretch of each table's data area
		first := map[storage.FileDesc]int{}
		for _, fd := range base.Files() {
			if fd.Type != storage.TypeTable {
				continue
			}
			td := base.Data(fd)
			end := dataAreaEnd(td)
			loose := tableUserKeys(td, w.Cfg)
			for off := 3; off < end; off += 16 {
				img = base.Clone()
				img.Delete(meta)
				img.ClearMeta()
				d := append([]byte(nil), td...)
				d[off] ^= 0x55
				img.SetData(fd, d)
				if _, ok := first[fd]; !ok {
					first[fd] = off
				}
				r.Extra["damaged_tables"]++
				recoverCheck(w, img, fmt.Sprintf("manifest removed and %v byte %d altered", fd, off), loose, r)
				if w.Failed() {
					return
				}
			}
		}
		// all tables' first blocks together
		if len(first) > 1 {
			img = base.Clone()
			img.Delete(meta)
			img.ClearMeta()
			loose := map[string]bool{}
			for fd, off := range first {
				d := append([]byte(nil), base.Data(fd)...)
				for k := range tableUserKeys(d, w.Cfg) {
					loose[k] = true
				}
				d[off] ^= 0x55
				img.SetData(fd, d)
			}
			recoverCheck(w, img, "manifest removed and the first block of every table altered", loose, r)
		}
		if w.Failed() || len(first) == 0 {
			return
		}
		// 6. a storage read error while Recover scans / rebuilds the tables (every table read in
		// turn fails once): Recover reports it, or succeeds with exactly what the fault-free
		// Recover yields; a retry after a reported error yields that too
		mk := func() *vstor.Stor {
			img := base.Clone()
			img.Delete(meta)
			img.ClearMeta()
			for fd, off := range first {
				d := append([]byte(nil), base.Data(fd)...)
				d[off] ^= 0x55
				img.SetData(fd, d)
			}
			return img
		}
		scanAll := func(db *leveldb.DB) (string, error) {
			var b strings.Builder
			it := db.NewIterator(nil, nil)
			for it.Next() {
				fmt.Fprintf(&b, "%q=%q;", it.Key(), it.Value())
			}
			err := it.Error()
			it.Release()
			return b.String(), err
		}
		refDB, err := leveldb.Recover(mk(), w.Cfg.Options())
		if err != nil {
			return // reported by step 5 already
		}
		ref, rerr := scanAll(refDB)
		refDB.Close()
		if rerr != nil {
			return
		}
		for nth := 1; nth <= 48; nth++ {
			img := mk()
			rule := &vstor.Rule{Kind: vstor.KRead, Types: storage.TypeTable, Nth: nth, Count: 1, Mode: vstor.ModeFail}
			img.Rules = []*vstor.Rule{rule}
			db, err := leveldb.Recover(img, w.Cfg.Options())
			if rule.Fired == 0 {
				if db != nil {
					db.Close()
				}
				break
			}
			r.Extra["recover_read_faults"]++
			what := fmt.Sprintf("manifest removed, first block of every table altered, table read #%d fails once during Recover", nth)
			if err != nil {
				img.Rules = nil
				db, err = leveldb.Recover(img, w.Cfg.Options())
				if err != nil {
					w.Viol = append(w.Viol, fmt.Sprintf("%s: Recover reported the error, the retry without faults fails: %v", what, err))
					return
				}
				what += " (error reported, Recover retried)"
			}
			got, gerr := scanAll(db)
			db.Close()
			if gerr != nil {
				w.Viol = append(w.Viol, fmt.Sprintf("%s: scan error %v", what, gerr))
				return
			}
			if got != ref {
				w.Viol = append(w.Viol, fmt.Sprintf("%s: contents %s, the fault-free Recover yields %s", what, got, ref))
				return
			}
		}
	}}
	register(&Check{
		ID:     "C19",
		Level:  "fault_enumeration",
		Worker: seqWorker(hk),
		Main: func(c *explore.Ctx) {
			var specs []seqSpec
			d := 3
			if c.Tier == "thorough" {
				d = 4
			}
			for _, cfg := range []string{"flushy/bytewise", "deep/bytewise", "wide/bytewise"} {
				specs = append(specs, seqSpec{Cfg: cfg, Alpha: c19Alpha, Depth: d, Checks: "db", Mode: "damage"})
			}
			// with a filter policy, in tables of several blocks: a table that Recover rebuilds from its
			// readable blocks gets a filter block too
			specs = append(specs, seqSpec{Cfg: "widebloom/bytewise", Alpha: c19Alpha, Depth: d, Checks: "db", Mode: "damage"})
			specs = append(specs, seqSpec{Cfg: "flushy/shortlex", Alpha: mustAlpha("shortlex"), Depth: d, Checks: "db", Probes: mustProbes("shortlex")})
			// the zero-length key (its internal key is exactly the 8-byte trailer), values and
			// tombstones, in tables that get rebuilt because another block of theirs is damaged
			specs = append(specs, seqSpec{Cfg: "wide/bytewise", Alpha: []string{"put:", "put:a", "putL:b", "del:", "w:-,+a", "cr", "q"}, Depth: d, Checks: "db", Probes: emptyKeyProbes, Mode: "damage,emptykey"})
			// continue from deep / rewritten layouts (e.g. older data in a higher-numbered table
			// than newer data: after Recover everything sits in level 0, where only sequence
			// numbers may decide)
			fp := explore.NewPool(0, "worker", "C19")
			rd, rmax := 6, 10
			if c.Tier == "thorough" {
				rd, rmax = 7, 24
			}
			for _, cfg := range []string{"deep/bytewise", "mixed/bytewise"} {
				hs, feats := findRichHistories(c, fp, cfg, richAlpha, rd, rmax)
				c.Coverage["layout_features_"+cfg] = feats
				specs = append(specs, seqSpec{Cfg: cfg, Alpha: []string{"put:a", "del:c", "w:-a,-c", "cr", "q"}, Depth: 2, Checks: "db", Mode: "from-rich-states", Prefixes: hs})
			}
			fp.Close()
			runSpecs(c, "C19", specs,
				"per reached state (BFS over DB operation sequences; state settled with Quiesce and closed): storage cloned and Recover run on each variant {manifest+CURRENT removed, CURRENT removed, manifest cut at every record boundary -1/0/+1 and inside headers, manifest garbage} -> contents must equal the model, LSM invariants hold, DB usable and reopenable with Open; plus, with the manifest removed, one byte altered per 16-byte stretch of each table's data area (one table at a time) and the first blocks of all tables together -> Recover succeeds, keys with no entry in the damaged table read exactly as the model, other keys only values once written (x_recover_runs, x_damaged_tables)",
				[]string{"settled, cleanly closed states only", "damage oracle is exact for keys outside the damaged table and 'never invented' for keys inside it (the property's per-block clause is checked at table granularity)"})
			c.Level = "fault_enumeration"
			// fault_enumeration evidence keys
			c.Coverage["evaluations"] = c.Get("x_recover_runs")
			c.Coverage["distinct_nontrivial"] = c.Get("states")
		},
	})
}

func mustAlpha(k string) []string  { a, _ := cmpAlpha(k); return a }
func mustProbes(k string) []string { _, p := cmpAlpha(k); return p }
