package findings

import (
	"testing"

	"github.com/syndtr/goleveldb/leveldb"
	"github.com/syndtr/goleveldb/leveldb/storage"
)

// D10 (C04): a crash during the very first Open, after the first manifest file was created
// but before CURRENT was written, left a storage that every later Open refused
// ("database entry point either missing or corrupted") although nothing had ever been stored.
func TestD10_CrashDuringCreationThenOpen(t *testing.T) {
	stor := storage.NewMemStorage()
	// what the crash leaves behind: MANIFEST-000000 (here: with a torn, unsynced prefix), no CURRENT
	w, err := stor.Create(storage.FileDesc{Type: storage.TypeManifest, Num: 0})
	if err != nil {
		t.Fatal(err)
	}
	w.Write([]byte{0x1, 0x2, 0x3})
	w.Close()
	db, err := leveldb.Open(stor, nil)
	if err != nil {
		t.Fatalf("Open after a crash during creation: %v", err)
	}
	defer db.Close()
	if err := db.Put([]byte("k"), []byte("v"), nil); err != nil {
		t.Fatal(err)
	}
	mustGet(t, db, "k", "v")
}
