module verif

go 1.23

require (
	github.com/syndtr/goleveldb v0.0.0-00010101000000-000000000000
	golang.org/x/tools v0.29.0
)

require (
	github.com/anishathalye/porcupine v1.3.0
	github.com/golang/snappy v0.0.4 // indirect
)

replace github.com/syndtr/goleveldb => /repo
