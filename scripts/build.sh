#!/bin/bash
# usage: build.sh <outdir> [extra vrewrite flags]  — instruments /repo's current tree and builds the harness
set -e
export GOFLAGS=-mod=mod GOPROXY=off GOSUMDB=off GOTOOLCHAIN=local
ROOT="$(cd "$(dirname "$0")/.." && pwd)"
OUT="$1"; shift
REPO="${VERIF_REPO:-/repo}"
mkdir -p "$OUT"
cd "$ROOT/engine"
cp "$REPO/go.sum" go.sum 2>/dev/null || true
go build -o "$OUT/vrewrite" ./cmd/vrewrite
rm -rf "$OUT/rw"
"$OUT/vrewrite" -repo "$REPO" -out "$OUT/rw" -hooks "$ROOT/hooks" "$@" >/dev/null
go build -overlay "$OUT/rw/overlay.json" -tags verif -o "$OUT/verif" ./cmd/verif
