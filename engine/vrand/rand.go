// Package vrand mirrors math/rand with fixed seeds so executions are deterministic.
package vrand

import (
	"math/rand"

	"verif/vsched"
)

// ev: the package-level generator is shared state (happens-before fingerprints).
func ev() { vsched.Event(vsched.OpYield, vsched.ObjRand, true) }

type Rand = rand.Rand
type Source = rand.Source

// NewSource ignores the seed's origin but keeps its value: goleveldb seeds memdb with a
// constant, so this stays deterministic. Time-derived seeds would come from the virtual
// clock and are deterministic too.
func NewSource(seed int64) Source { return rand.NewSource(seed) }
func New(src Source) *Rand        { return rand.New(src) }

var global = rand.New(rand.NewSource(1))

// Reset re-seeds the package-level generator (called at the start of every execution).
func Reset() { global = rand.New(rand.NewSource(1)) }

func Intn(n int) int       { ev(); return global.Intn(n) }
func Int() int             { ev(); return global.Int() }
func Int31n(n int32) int32 { ev(); return global.Int31n(n) }
func Int63() int64         { ev(); return global.Int63() }
func Int63n(n int64) int64 { ev(); return global.Int63n(n) }
func Uint32() uint32       { ev(); return global.Uint32() }
func Float64() float64     { ev(); return global.Float64() }
func Perm(n int) []int     { ev(); return global.Perm(n) }
func Seed(s int64)         { global = rand.New(rand.NewSource(s)) }
