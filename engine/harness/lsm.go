package harness

import (
	"bytes"
	"fmt"
	"sort"

	"github.com/syndtr/goleveldb/leveldb"
	"github.com/syndtr/goleveldb/leveldb/opt"
	"github.com/syndtr/goleveldb/leveldb/storage"
	"github.com/syndtr/goleveldb/leveldb/table"
	"verif/vstor"
)

// LSMStats counts what an invariant check looked at.
type LSMStats struct {
	Tables, Entries, MaxLevel, MaxFilesInLevel int
}

type tblEntry struct {
	ukey string
	seq  uint64
	del  bool
}

// CheckLSM validates the C06 invariants of a version against the files in stor.
func CheckLSM(stor *vstor.Stor, st leveldb.VerifState, cfg Config) (viol []string, stats LSMStats) {
	o := cfg.Options()
	ucmp := o.Comparer
	icmp := leveldb.VerifIComparerFull(ucmp)
	ro := &opt.Options{Comparer: icmp, Strict: opt.StrictAll, DisableBlockCache: true, DisableBufferPool: true, Filter: nil}
	bad := func(f string, a ...any) { viol = append(viol, fmt.Sprintf(f, a...)) }
	type lv struct {
		t  leveldb.VerifTable
		es []tblEntry
	}
	levels := map[int][]lv{}
	for _, t := range st.Tables {
		fd := storage.FileDesc{Type: storage.TypeTable, Num: t.Num}
		stats.Tables++
		if t.Level > stats.MaxLevel {
			stats.MaxLevel = t.Level
		}
		if !stor.Exists(fd) {
			bad("live table %v (level %d) does not exist in storage", fd, t.Level)
			continue
		}
		data := stor.Data(fd)
		if int64(len(data)) != t.Size {
			bad("live table %v: recorded size %d, file has %d bytes", fd, t.Size, len(data))
			continue
		}
		tr, err := table.NewReader(bytes.NewReader(data), int64(len(data)), fd, nil, nil, ro)
		if err != nil {
			bad("live table %v unreadable: %v", fd, err)
			continue
		}
		it := tr.NewIterator(nil, nil)
		var prev []byte
		var es []tblEntry
		var first, last []byte
		for it.Next() {
			k := it.Key()
			if prev != nil && icmp.Compare(prev, k) >= 0 {
				bad("table %v: entries not strictly increasing (%q then %q)", fd, prev, k)
			}
			u, seq, del, ok := leveldb.VerifParseIKey(k)
			if !ok {
				bad("table %v: malformed internal key %q", fd, k)
			}
			es = append(es, tblEntry{string(u), seq, del})
			if first == nil {
				first = append([]byte(nil), k...)
			}
			last = append(last[:0], k...)
			prev = append(prev[:0], k...)
		}
		if err := it.Error(); err != nil {
			bad("table %v: iteration error %v", fd, err)
		}
		it.Release()
		tr.Release()
		stats.Entries += len(es)
		if len(es) == 0 {
			bad("table %v is empty", fd)
			continue
		}
		if !bytes.Equal(first, t.Imin) {
			bad("table %v: recorded smallest key %q, first entry %q", fd, t.Imin, first)
		}
		if !bytes.Equal(last, t.Imax) {
			bad("table %v: recorded largest key %q, last entry %q", fd, t.Imax, last)
		}
		levels[t.Level] = append(levels[t.Level], lv{t, es})
	}
	// per-level ordering and disjointness (levels >= 1)
	for level, tt := range levels {
		if len(tt) > stats.MaxFilesInLevel {
			stats.MaxFilesInLevel = len(tt)
		}
		if level == 0 {
			continue
		}
		for i := 1; i < len(tt); i++ {
			a, b := tt[i-1], tt[i]
			if icmp.Compare(a.t.Imin, b.t.Imin) >= 0 {
				bad("level %d: files %d and %d not ordered by smallest key", level, a.t.Num, b.t.Num)
			}
			ua := a.es[len(a.es)-1].ukey
			ub := b.es[0].ukey
			if ucmp.Compare([]byte(ua), []byte(ub)) >= 0 {
				bad("level %d: files %d [..%q] and %d [%q..] overlap in user keys", level, a.t.Num, ua, b.t.Num, ub)
			}
		}
	}
	// cross-level: for any user key, every entry in a shallower level is newer than every
	// entry in a deeper level
	type mm struct{ min, max uint64 }
	per := map[int]map[string]*mm{}
	for level, tt := range levels {
		m := map[string]*mm{}
		for _, f := range tt {
			for _, e := range f.es {
				x := m[e.ukey]
				if x == nil {
					m[e.ukey] = &mm{e.seq, e.seq}
				} else {
					if e.seq < x.min {
						x.min = e.seq
					}
					if e.seq > x.max {
						x.max = e.seq
					}
				}
			}
		}
		per[level] = m
	}
	for li, mi := range per {
		for lj, mj := range per {
			if li >= lj {
				continue
			}
			for k, a := range mi {
				if b, ok := mj[k]; ok && a.min <= b.max {
					bad("user key %q: level %d holds seq %d, deeper level %d holds seq %d (shallower must be newer)", k, li, a.min, lj, b.max)
				}
			}
		}
	}
	return
}

// Features describes layout traits of the current DB state that matter to compaction and
// recovery logic; the fault and crash enumerations use them to pick histories that reach
// deep, tombstone-rich, multi-table layouts (start exploration from non-initial states).
func (w *World) Features() []string {
	st := w.DB.VerifState()
	o := w.Cfg.Options()
	icmp := leveldb.VerifIComparerFull(o.Comparer)
	ro := &opt.Options{Comparer: icmp, Strict: opt.NoStrict, DisableBlockCache: true, DisableBufferPool: true}
	type ent struct {
		level int
		del   bool
		seq   uint64
		num   int64
	}
	per := map[string][]ent{}
	tablesAt := map[int]int{}
	multiEntry := false
	for _, t := range st.Tables {
		tablesAt[t.Level]++
		data := w.Stor.Data(storage.FileDesc{Type: storage.TypeTable, Num: t.Num})
		tr, err := table.NewReader(bytes.NewReader(data), int64(len(data)), storage.FileDesc{Type: storage.TypeTable, Num: t.Num}, nil, nil, ro)
		if err != nil {
			continue
		}
		it := tr.NewIterator(nil, nil)
		n := 0
		for it.Next() {
			if u, seq, del, ok := leveldb.VerifParseIKey(it.Key()); ok {
				per[string(u)] = append(per[string(u)], ent{t.Level, del, seq, t.Num})
				n++
			}
		}
		if n > 1 {
			multiEntry = true
		}
		it.Release()
		tr.Release()
	}
	f := map[string]bool{}
	maxLevel := 0
	for l, n := range tablesAt {
		if l > maxLevel {
			maxLevel = l
		}
		if l >= 1 && n >= 2 {
			f[fmt.Sprintf("multi-table-L%d", min(l, 3))] = true
		}
	}
	if maxLevel >= 2 {
		f["depth>=2"] = true
	}
	if maxLevel >= 3 {
		f["depth>=3"] = true
	}
	if multiEntry {
		f["multi-entry-table"] = true
	}
	for _, es := range per {
		for _, a := range es {
			for _, b := range es {
				if a.seq > b.seq && a.num < b.num {
					f["newer-version-in-lower-numbered-table"] = true
					if a.del {
						f["newer-tombstone-in-lower-numbered-table"] = true
					}
				}
			}
		}
	}
	gapKeys := 0
	for _, es := range per {
		for _, a := range es {
			if !a.del {
				continue
			}
			f["tombstone-in-table"] = true
			for _, b := range es {
				if !b.del && b.level >= a.level+1 {
					f["tombstone-over-value"] = true
				}
				if !b.del && b.level >= a.level+2 {
					f["tombstone-2-levels-over-value"] = true
					gapKeys++
					if tablesAt[b.level] >= 2 {
						f["tombstone-2-levels-over-value-in-multi-table-level"] = true
					}
				}
			}
		}
	}
	if gapKeys >= 2 {
		f["two-keys-tombstone-2-levels-over-value"] = true
	}
	if st.FrozenLen >= 0 {
		f["frozen-pending"] = true
	}
	if len(st.Snapshots) > 0 {
		f["live-snapshot"] = true
	}
	var out []string
	for k := range f {
		out = append(out, k)
	}
	sort.Strings(out)
	return out
}
