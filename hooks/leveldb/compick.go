//go:build verif

package leveldb

// Driver for the compaction input selection (C06): a synthetic version (table metadata only)
// is handed to the REAL newCompaction/expand and tFiles.getOverlaps; nothing is
// re-implemented here.

import (
	"github.com/syndtr/goleveldb/leveldb/opt"
	"github.com/syndtr/goleveldb/leveldb/storage"
)

// VerifTab describes one synthetic table: file number and smallest/largest user key.
type VerifTab struct {
	Num    int64
	Lo, Hi []byte
}

type VerifPicker struct {
	s *session
}

func VerifNewPicker(o *opt.Options) *VerifPicker {
	s := &session{stor: newIStorage(storage.NewMemStorage())}
	s.setOptions(o)
	return &VerifPicker{s}
}

func (p *VerifPicker) version(levels [][]VerifTab) *version {
	v := &version{s: p.s}
	for _, tt := range levels {
		var fs tFiles
		for _, t := range tt {
			fs = append(fs, &tFile{fd: storage.FileDesc{Type: storage.TypeTable, Num: t.Num}, size: 1,
				imin: makeInternalKey(nil, t.Lo, 9, keyTypeVal), imax: makeInternalKey(nil, t.Hi, 1, keyTypeVal)})
		}
		v.levels = append(v.levels, fs)
	}
	return v
}

func nums(fs tFiles) []int64 {
	out := make([]int64, 0, len(fs))
	for _, f := range fs {
		out = append(out, f.fd.Num)
	}
	return out
}

// PickFrom runs the real input expansion for a compaction seeded with the idx-th table of
// sourceLevel (what pickCompaction / a seek compaction does).
func (p *VerifPicker) PickFrom(levels [][]VerifTab, sourceLevel, idx int) (in0, in1 []int64) {
	v := p.version(levels)
	typ := level0Compaction
	if sourceLevel > 0 {
		typ = nonLevel0Compaction
	}
	c := newCompaction(p.s, v, sourceLevel, tFiles{v.levels[sourceLevel][idx]}, typ)
	return nums(c.levels[0]), nums(c.levels[1])
}

// PickRange runs the real input selection of a range compaction (CompactRange).
func (p *VerifPicker) PickRange(levels [][]VerifTab, sourceLevel int, umin, umax []byte) (in0, in1 []int64, ok bool) {
	v := p.version(levels)
	t0 := v.levels[sourceLevel].getOverlaps(nil, p.s.icmp, umin, umax, sourceLevel == 0)
	if len(t0) == 0 {
		return nil, nil, false
	}
	typ := level0Compaction
	if sourceLevel > 0 {
		typ = nonLevel0Compaction
	}
	c := newCompaction(p.s, v, sourceLevel, t0, typ)
	return nums(c.levels[0]), nums(c.levels[1]), true
}
