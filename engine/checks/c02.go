package checks

import (
	"bytes"
	"encoding/json"
	"fmt"
	"sort"
	"strings"

	"github.com/syndtr/goleveldb/leveldb/comparer"
	"github.com/syndtr/goleveldb/leveldb/iterator"
	"github.com/syndtr/goleveldb/leveldb/util"
	"verif/explore"
	"verif/harness"
	"verif/model"
)

// C02 — iterators. (a) DB level: in every state reached by a breadth-first search over
// write/delete/batch/compaction/snapshot/transaction sequences, for every range with bounds
// in {nil} ∪ probes and for the DB, every live snapshot and the open transaction: EVERY
// movement sequence (First, Last, Next, Prev, Seek(p)) up to a depth is executed on a fresh
// iterator and compared move by move with a cursor over the sorted live pairs.
// (b) component level: the same enumeration on iterator.NewMergedIterator (all assignments of
// up to 5 keys to 3 children) and iterator.NewIndexedIterator (all splits into runs).

var c02Alpha = []string{"put:a", "put:b", "put:c", "del:a", "del:b", "b1", "cr", "q", "snap", "otr", "tput:b", "tdel:a", "commit"}

type c02Params struct {
	MoveDepth int
	Ranges    string // "all" | "few"
}

func c02Walk(w *harness.World, r *seqResult, depth int, allRanges bool) {
	cmp := w.Cmp()
	var bounds [][]byte
	bounds = append(bounds, nil)
	for _, p := range w.Probes {
		bounds = append(bounds, []byte(p))
	}
	if !allRanges {
		bounds = [][]byte{nil, []byte(w.Probes[1]), []byte(w.Probes[3]), []byte(w.Probes[4])}
	}
	var seeks [][]byte
	for _, p := range w.Probes {
		seeks = append(seeks, []byte(p))
	}
	type view struct {
		name string
		mk   func(rg *util.Range) iterator.Iterator
		m    *model.KV
	}
	views := []view{{"db", func(rg *util.Range) iterator.Iterator { return w.DB.NewIterator(rg, nil) }, w.M}}
	for i, s := range w.Snaps {
		s := s
		views = append(views, view{fmt.Sprintf("snapshot#%d", i), func(rg *util.Range) iterator.Iterator { return s.S().NewIterator(rg, nil) }, s.M()})
	}
	if w.Tr != nil {
		views = append(views, view{"transaction", func(rg *util.Range) iterator.Iterator { return w.Tr.NewIterator(rg, nil) }, w.TrM})
	}
	for _, v := range views {
		for _, s := range bounds {
			for _, l := range bounds {
				if s != nil && l != nil && cmp(s, l) > 0 {
					continue
				}
				var rg *util.Range
				if s != nil || l != nil {
					rg = &util.Range{Start: s, Limit: l}
				}
				want := v.m.Range(s, l)
				st := walkStats{}
				viol := walkAll(func() iterator.Iterator { return v.mk(rg) }, want, cmp, seeks, depth, &st)
				r.Extra["movement_sequences"] += st.Seqs
				r.Extra["moves"] += st.Moves
				r.Extra["view_range_pairs"]++
				if viol != "" {
					w.Viol = append(w.Viol, fmt.Sprintf("%s iterator, range [%q,%q): %s", v.name, s, l, viol))
					return
				}
			}
		}
	}
}

// ---- component level ----

type kvArray struct {
	ks, vs [][]byte
	cmp    comparer.BasicComparer
}

func (a *kvArray) Len() int { return len(a.ks) }
func (a *kvArray) Search(key []byte) int {
	return sort.Search(len(a.ks), func(i int) bool { return a.cmp.Compare(a.ks[i], key) >= 0 })
}
func (a *kvArray) Index(i int) (key, value []byte) { return a.ks[i], a.vs[i] }

type runIndex struct {
	runs []*kvArray
	cmp  comparer.BasicComparer
}

func (x *runIndex) Len() int { return len(x.runs) }
func (x *runIndex) Search(key []byte) int {
	// first run whose largest key >= key
	return sort.Search(len(x.runs), func(i int) bool {
		r := x.runs[i]
		return x.cmp.Compare(r.ks[len(r.ks)-1], key) >= 0
	})
}
func (x *runIndex) Get(i int) iterator.Iterator { return iterator.NewArrayIterator(x.runs[i]) }

// failIndex hands out data iterators that share one failure countdown.
type failIndex struct {
	runIndex
	left *int
}

func (x *failIndex) Get(i int) iterator.Iterator {
	return &failIter{Iterator: iterator.NewArrayIterator(x.runs[i]), left: x.left}
}

type c02CompTask struct {
	Kind  string `json:"kind"` // merged | indexed
	N     int    `json:"n"`
	Depth int    `json:"depth"`
	From  int    `json:"from"`
	To    int    `json:"to"`
}

type c02CompResult struct {
	Cases, Seqs, Moves, Errored int
	Viol                        []string
}

// failIter is a child iterator whose source fails at its k-th positioning call (a table block
// that cannot be read): the call returns false, the iterator is invalid from then on and
// Error() reports it.
type failIter struct {
	iterator.Iterator
	left *int // positioning calls until the failure (shared by the children of one parent)
	err  error
}

var errC02Source = fmt.Errorf("verif: injected source failure")

func (f *failIter) step() bool {
	if f.err != nil {
		return false
	}
	*f.left--
	if *f.left == 0 {
		f.err = errC02Source
		return false
	}
	return true
}
func (f *failIter) First() bool        { return f.step() && f.Iterator.First() }
func (f *failIter) Last() bool         { return f.step() && f.Iterator.Last() }
func (f *failIter) Next() bool         { return f.step() && f.Iterator.Next() }
func (f *failIter) Prev() bool         { return f.step() && f.Iterator.Prev() }
func (f *failIter) Seek(k []byte) bool { return f.step() && f.Iterator.Seek(k) }
func (f *failIter) Valid() bool        { return f.err == nil && f.Iterator.Valid() }
func (f *failIter) Error() error       { return f.err }
func (f *failIter) Key() []byte {
	if f.err != nil {
		return nil
	}
	return f.Iterator.Key()
}
func (f *failIter) Value() []byte {
	if f.err != nil {
		return nil
	}
	return f.Iterator.Value()
}

var c02Keys = []string{"a", "aa", "b", "b\xff", "c"}

func runC02Comp(t *c02CompTask) *c02CompResult {
	res := &c02CompResult{}
	cmp := comparer.DefaultComparer
	var seeks [][]byte
	for _, p := range []string{"", "a", "ab", "b", "b\xff", "bz", "c", "d"} {
		seeks = append(seeks, []byte(p))
	}
	keys := c02Keys[:t.N]
	var want []model.Pair
	for i, k := range keys {
		want = append(want, model.Pair{K: k, V: fmt.Sprintf("v%d", i)})
	}
	switch t.Kind {
	case "merged":
		// every assignment of the keys to 3 children (children may be empty)
		total := 1
		for range keys {
			total *= 3
		}
		for a := t.From; a < t.To && a < total; a++ {
			arrs := []*kvArray{{cmp: cmp}, {cmp: cmp}, {cmp: cmp}}
			x := a
			for i, k := range keys {
				c := x % 3
				x /= 3
				arrs[c].ks = append(arrs[c].ks, []byte(k))
				arrs[c].vs = append(arrs[c].vs, []byte(fmt.Sprintf("v%d", i)))
			}
			res.Cases++
			st := walkStats{}
			v := walkAll(func() iterator.Iterator {
				its := []iterator.Iterator{iterator.NewArrayIterator(arrs[0]), iterator.NewArrayIterator(arrs[1]), iterator.NewArrayIterator(arrs[2])}
				return iterator.NewMergedIterator(its, cmp, true)
			}, want, cmp.Compare, seeks, t.Depth, &st)
			res.Seqs += st.Seqs
			res.Moves += st.Moves
			if v != "" {
				res.Viol = append(res.Viol, fmt.Sprintf("merged iterator, %d keys, assignment #%d: %s", t.N, a, v))
				return res
			}
		}
	case "merged-err":
		// every assignment x child c fails at its k-th positioning call (k = 1..4)
		total := 1
		for range keys {
			total *= 3
		}
		for a := t.From; a < t.To && a < total; a++ {
			arrs := []*kvArray{{cmp: cmp}, {cmp: cmp}, {cmp: cmp}}
			x := a
			for i, k := range keys {
				c := x % 3
				x /= 3
				arrs[c].ks = append(arrs[c].ks, []byte(k))
				arrs[c].vs = append(arrs[c].vs, []byte(fmt.Sprintf("v%d", i)))
			}
			for fc := 0; fc < 3; fc++ {
				for fk := 1; fk <= 4; fk++ {
					res.Cases++
					st := walkStats{}
					v := walkAllErr(func() iterator.Iterator {
						left := fk
						its := make([]iterator.Iterator, 3)
						for i := range its {
							its[i] = iterator.NewArrayIterator(arrs[i])
							if i == fc {
								its[i] = &failIter{Iterator: its[i], left: &left}
							}
						}
						return iterator.NewMergedIterator(its, cmp, true)
					}, want, cmp.Compare, seeks, t.Depth, &st, true)
					res.Seqs += st.Seqs
					res.Moves += st.Moves
					res.Errored += st.Errored
					if v != "" {
						res.Viol = append(res.Viol, fmt.Sprintf("merged iterator, %d keys, assignment #%d, child %d fails at its positioning call %d: %s", t.N, a, fc, fk, v))
						return res
					}
				}
			}
		}
	case "indexed-err":
		// every split into runs x the data iterators fail at their k-th positioning call overall
		if t.N == 0 {
			return res
		}
		for a := t.From; a < t.To && a < 1<<(t.N-1); a++ {
			var runs []*kvArray
			cur := &kvArray{cmp: cmp}
			for i, k := range keys {
				cur.ks = append(cur.ks, []byte(k))
				cur.vs = append(cur.vs, []byte(fmt.Sprintf("v%d", i)))
				if i == len(keys)-1 || a&(1<<i) != 0 {
					runs = append(runs, cur)
					cur = &kvArray{cmp: cmp}
				}
			}
			for fk := 1; fk <= 5; fk++ {
				res.Cases++
				st := walkStats{}
				v := walkAllErr(func() iterator.Iterator {
					left := fk
					return iterator.NewIndexedIterator(iterator.NewArrayIndexer(&failIndex{runIndex: runIndex{runs: runs, cmp: cmp}, left: &left}), true)
				}, want, cmp.Compare, seeks, t.Depth, &st, true)
				res.Seqs += st.Seqs
				res.Moves += st.Moves
				res.Errored += st.Errored
				if v != "" {
					res.Viol = append(res.Viol, fmt.Sprintf("indexed iterator, %d keys, split #%b, data iterators fail at positioning call %d: %s", t.N, a, fk, v))
					return res
				}
			}
		}
	case "indexed":
		// every split of the sorted keys into consecutive non-empty runs (2^(n-1) splits)
		if t.N == 0 {
			return res
		}
		for a := t.From; a < t.To && a < 1<<(t.N-1); a++ {
			var runs []*kvArray
			cur := &kvArray{cmp: cmp}
			for i, k := range keys {
				cur.ks = append(cur.ks, []byte(k))
				cur.vs = append(cur.vs, []byte(fmt.Sprintf("v%d", i)))
				if i == len(keys)-1 || a&(1<<i) != 0 {
					runs = append(runs, cur)
					cur = &kvArray{cmp: cmp}
				}
			}
			res.Cases++
			st := walkStats{}
			v := walkAll(func() iterator.Iterator {
				return iterator.NewIndexedIterator(iterator.NewArrayIndexer(&runIndex{runs: runs, cmp: cmp}), true)
			}, want, cmp.Compare, seeks, t.Depth, &st)
			res.Seqs += st.Seqs
			res.Moves += st.Moves
			if v != "" {
				res.Viol = append(res.Viol, fmt.Sprintf("indexed iterator, %d keys, split #%b: %s", t.N, a, v))
				return res
			}
		}
	}
	return res
}

func init() {
	hk := &seqHooks{After: func(w *harness.World, t *seqTask, r *seqResult) {
		depth := 2
		all := true
		switch {
		case hasMode(t, "m3few"):
			depth, all = 3, false
		case hasMode(t, "m3all"):
			depth, all = 3, true
		case hasMode(t, "m4few"):
			depth, all = 4, false
		}
		c02Walk(w, r, depth, all)
	}}
	seqW := seqWorker(hk)
	register(&Check{
		ID:    "C02",
		Level: "model_checking",
		Worker: func(task []byte) []byte {
			var probe struct {
				Kind string `json:"kind"`
			}
			json.Unmarshal(task, &probe)
			if strings.HasPrefix(probe.Kind, "merged") || strings.HasPrefix(probe.Kind, "indexed") {
				var t c02CompTask
				json.Unmarshal(task, &t)
				return explore.MustJSON(runC02Comp(&t))
			}
			return seqW(task)
		},
		Main: func(c *explore.Ctx) {
			quick := c.Tier == "quick"
			// (b) component level
			pool := explore.NewPool(0, "worker", "C02")
			cd := 3
			if !quick {
				cd = 4
			}
			var raw [][]byte
			var metas []c02CompTask
			for n := 0; n <= 5; n++ {
				total := 1
				for i := 0; i < n; i++ {
					total *= 3
				}
				for from := 0; from < total; from += 27 {
					t := c02CompTask{Kind: "merged", N: n, Depth: cd, From: from, To: from + 27}
					metas = append(metas, t)
				}
				if n > 0 {
					metas = append(metas, c02CompTask{Kind: "indexed", N: n, Depth: cd, From: 0, To: 1 << 5})
				}
			}
			// a child / data iterator whose source fails at some positioning call: the parent stops
			// with that error or answers like the model, never wrongly with Error() == nil
			for n := 1; n <= 4; n++ {
				total := 1
				for i := 0; i < n; i++ {
					total *= 3
				}
				for from := 0; from < total; from += 9 {
					metas = append(metas, c02CompTask{Kind: "merged-err", N: n, Depth: 3, From: from, To: from + 9})
				}
				metas = append(metas, c02CompTask{Kind: "indexed-err", N: n, Depth: 3, From: 0, To: 1 << 5})
			}
			for _, t := range metas {
				raw = append(raw, explore.MustJSON(t))
			}
			pool.Map(raw, func(i int, b []byte, err error) {
				var r c02CompResult
				if err != nil {
					r.Viol = explore.CrashViol(err)
				} else {
					json.Unmarshal(b, &r)
				}
				c.Add("component_cases", r.Cases)
				c.Add("component_movement_sequences", r.Seqs)
				c.Add("component_sequences_ended_by_source_error", r.Errored)
				c.Add("transitions", r.Moves)
				for _, v := range r.Viol {
					c.Report(&explore.Violation{Property: "C02", Sig: map[string]string{"check": "component-iterator", "kind": metas[i].Kind, "effect": v}, Detail: map[string]any{"task": metas[i], "violation": v}})
				}
			})
			pool.Close()
			// (a) DB level
			var specs []seqSpec
			add := func(cfg string, alpha []string, d int, mode string, probes []string) {
				specs = append(specs, seqSpec{Cfg: cfg, Alpha: alpha, Depth: d, Checks: "db", Mode: mode, Probes: probes})
			}
			sa, sp := cmpAlpha("shortlex")
			// tables of many blocks (eight keys, one entry per block) at level 0, as a transaction's
			// table and at a deeper level: direction changes and re-positioning that cross block
			// boundaries far from an earlier position, movement depth 4
			specs = append(specs, seqSpec{Cfg: "wide/bytewise", Alpha: []string{"put:c", "del:d", "snap", "q"}, Depth: 1, Checks: "db", Mode: "m4few,many-blocks",
				Probes: []string{"", "a", "c", "cc", "e", "h", "i"},
				Prefixes: [][]string{
					{"w:+a,+b,+c,+d,+e,+f,+g,+h", "re"},
					{"w:+a,+b,+c,+d,+e,+f,+g,+h", "re", "cr"},
					{"w:+a,+c,+e,+g", "re", "w:+b,+d,+f,+h", "re"},
					{"otr", "tput:a", "tput:b", "tput:c", "tput:d", "tput:e", "tput:f", "tput:g", "tput:h"},
				}})
			if quick {
				add("flushy/bytewise", c02Alpha, 3, "m2", nil)
				add("deep/bytewise", c02Alpha, 3, "m3few", nil)
				add("wide/bytewise", c02Alpha, 3, "m2", nil)
				add("seeky/bytewise", c02Alpha, 2, "m3few", nil)
				add("flushy/shortlex", sa, 3, "m2", sp)
				add("flushy/bytewise", emptyKeyAlpha, 3, "m2", emptyKeyProbes)
				add("mixed/bytewise", shapeAlpha, 2, "m2", shapeProbes)
			} else {
				add("flushy/bytewise", c02Alpha, 4, "m3few", nil)
				add("flushy/bytewise", c02Alpha, 3, "m3all", nil)
				add("deep/bytewise", c02Alpha, 4, "m3few", nil)
				add("wide/bytewise", c02Alpha, 4, "m3few", nil)
				add("wide/bytewise", c02Alpha, 3, "m4few", nil)
				add("seeky/bytewise", c02Alpha, 3, "m3all", nil)
				add("flushy/shortlex", sa, 4, "m3few", sp)
				add("wide/shortlex", sa, 3, "m3all", sp)
				add("flushy/bytewise", emptyKeyAlpha, 4, "m3few", emptyKeyProbes)
				add("mixed/bytewise", shapeAlpha, 3, "m3few", shapeProbes)
			}
			runSpecs(c, "C02", specs,
				"(a) BFS over DB operation sequences (puts, deletes, batch, CompactRange, Quiesce, snapshots, transactions); in every reached state, for the DB, each live snapshot and the open transaction, for every range with Start/Limit in {nil} ∪ probes (mode *all*) or a 4-bound subset (*few*), every movement sequence of the stated depth (m2/m3/m4) over {First,Last,Next,Prev,Seek(7 probes)} runs on a fresh iterator and is compared move by move (return value, Valid, Key, Value, Error) with a cursor over the sorted live pairs in range; x_movement_sequences / x_moves count them; (b) the same enumeration on NewMergedIterator for every assignment of <=5 keys to 3 children and on NewIndexedIterator for every split into runs (component_* counters); table and memdb iterators are enumerated in C13 and C14",
				[]string{"3 user keys, 7 probes/bounds; movement depth bounded", "comparers bytewise and shortlex at DB level"})
			_ = bytes.Compare
		},
	})
}
