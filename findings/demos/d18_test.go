package findings

import (
	"io"
	"testing"

	"github.com/syndtr/goleveldb/leveldb"
	"github.com/syndtr/goleveldb/leveldb/opt"
	"github.com/syndtr/goleveldb/leveldb/storage"
	"github.com/syndtr/goleveldb/leveldb/util"
)

// D18 (C19): Recover rebuilds a table that has a damaged block, but wrote the rebuilt table
// with the *user* comparer and the unwrapped filter. Its index separators were therefore
// shortened user-style ("b" between a... and c...), i.e. not valid internal keys, and the
// first lookup that reached the table crashed with 'internal key "b", len=1: invalid length'.
func TestD18_RecoverRebuildsTableWithWrongComparer(t *testing.T) {
	stor := storage.NewMemStorage()
	o := &opt.Options{BlockSize: 16, BlockRestartInterval: 2, Compression: opt.NoCompression, DisableSeeksCompaction: true}
	db, err := leveldb.Open(stor, o)
	if err != nil {
		t.Fatal(err)
	}
	for _, k := range []string{"a", "b", "c", "d"} {
		if err := db.Put([]byte(k), []byte("value-of-"+k), nil); err != nil {
			t.Fatal(err)
		}
	}
	if err := db.CompactRange(util.Range{}); err != nil {
		t.Fatal(err)
	}
	db.Close()
	fds, _ := stor.List(storage.TypeTable)
	if len(fds) != 1 {
		t.Fatalf("expected one table, got %v", fds)
	}
	r, _ := stor.Open(fds[0])
	data, _ := io.ReadAll(r)
	r.Close()
	data[3] ^= 0x55 // inside the first data block: its checksum no longer matches
	w, _ := stor.Create(fds[0])
	w.Write(data)
	w.Close()

	db, err = leveldb.Recover(stor, o)
	if err != nil {
		t.Fatalf("Recover: %v", err)
	}
	defer db.Close()
	// entries in undamaged blocks must be served (and nothing may crash)
	for _, k := range []string{"c", "d"} {
		mustGet(t, db, k, "value-of-"+k)
	}
	for _, k := range []string{"a", "b"} {
		if v, err := db.Get([]byte(k), nil); err == nil && string(v) != "value-of-"+k {
			t.Fatalf("Get(%q) = %q: invented data", k, v)
		}
	}
}
