package vstor

import (
	"fmt"

	"github.com/syndtr/goleveldb/leveldb/storage"
)

// Tail says what happens to the unsynced tail of one file in a crash image.
type Tail struct {
	Fd   storage.FileDesc
	Keep int  // bytes of the unsynced tail that survive (0..tail length)
	Fill byte // 0: nothing after the cut; 'z': zeros up to the old length; 'g': garbage
}

// Variant describes one admissible post-crash image: every file with an unsynced tail
// either loses it (KeepAll=false) or keeps it (KeepAll=true), except the file named in
// Dev (if any), whose tail is treated as Dev says.
type Variant struct {
	KeepAll bool
	Dev     *Tail
}

func (v Variant) String() string {
	s := "tails-lost"
	if v.KeepAll {
		s = "tails-kept"
	}
	if v.Dev != nil {
		s += fmt.Sprintf("+%v:keep%d", v.Dev.Fd, v.Dev.Keep)
		if v.Dev.Fill != 0 {
			s += string(v.Dev.Fill)
		}
	}
	return s
}

// imgFile is a file during log replay.
type imgFile struct {
	data   []byte
	synced int
	wends  []int
}

// Replayed is the storage state after a log prefix, with sync bookkeeping.
type Replayed struct {
	files map[storage.FileDesc]*imgFile
	meta  storage.FileDesc
}

// Replay applies ops (which must have been recorded with Record=true, starting from base,
// which may be nil for an empty storage) and returns the bookkeeping state.
func Replay(base *Stor, ops []Op) *Replayed {
	r := &Replayed{files: map[storage.FileDesc]*imgFile{}}
	if base != nil {
		for fd, f := range base.files {
			r.files[fd] = &imgFile{data: append([]byte(nil), f.data...), synced: len(f.data)}
		}
		r.meta = base.meta
	}
	for i := range ops {
		r.Apply(&ops[i])
	}
	return r
}

// Apply advances the replayed state by one logged operation.
func (r *Replayed) Apply(op *Op) {
	{
		switch op.Kind {
		case KCreate:
			if op.Eff {
				r.files[op.Fd] = &imgFile{}
			}
		case KWrite:
			if f := r.files[op.Fd]; f != nil && op.Len > 0 {
				f.data = append(f.data, op.Data...)
				f.wends = append(f.wends, len(f.data))
			}
		case KSync:
			if f := r.files[op.Fd]; f != nil && op.Eff {
				f.synced = len(f.data)
				f.wends = nil
			}
		case KRemove:
			if op.Eff {
				delete(r.files, op.Fd)
			}
		case KRename:
			if op.Eff {
				if f, ok := r.files[op.Fd]; ok {
					delete(r.files, op.Fd)
					r.files[op.Fd2] = f
				}
			}
		case KSetMeta:
			if op.Eff {
				r.meta = op.Fd
			}
		}
	}
}

// Dirty lists the files that have an unsynced tail, with the tail's interesting cut points
// (relative keep lengths): each write boundary, one byte into each write, half of each write.
func (r *Replayed) Dirty() map[storage.FileDesc][]int {
	out := map[storage.FileDesc][]int{}
	for fd, f := range r.files {
		if len(f.data) > f.synced {
			seen := map[int]bool{}
			var cuts []int
			add := func(abs int) {
				k := abs - f.synced
				if k > 0 && k < len(f.data)-f.synced && !seen[k] {
					seen[k] = true
					cuts = append(cuts, k)
				}
			}
			prev := f.synced
			for _, e := range f.wends {
				if e <= f.synced {
					continue
				}
				add(prev + 1)
				add(prev + (e-prev)/2)
				add(e - 1)
				add(e)
				prev = e
			}
			out[fd] = cuts
		}
	}
	return out
}

// TailLen returns the unsynced tail length of fd.
func (r *Replayed) TailLen(fd storage.FileDesc) int {
	f := r.files[fd]
	if f == nil {
		return 0
	}
	return len(f.data) - f.synced
}

// Image materialises the post-crash storage for a variant.
func (r *Replayed) Image(v Variant) *Stor {
	s := New()
	for fd, f := range r.files {
		keep := f.synced
		if v.KeepAll {
			keep = len(f.data)
		}
		var fill byte
		if v.Dev != nil && v.Dev.Fd == fd {
			keep = f.synced + v.Dev.Keep
			if keep > len(f.data) {
				keep = len(f.data)
			}
			fill = v.Dev.Fill
		}
		d := append([]byte(nil), f.data[:keep]...)
		if fill != 0 {
			for i := keep; i < len(f.data); i++ {
				if fill == 'z' {
					d = append(d, 0)
				} else {
					d = append(d, byte(0xA5^(i*131)))
				}
			}
		}
		s.files[fd] = &file{data: d, synced: len(d)}
	}
	s.meta = r.meta
	return s
}
