#!/bin/bash
# usage: mutrun.sh <out.tsv> <diff> <check-id>...
# Applies one patch to a scratch worktree of /repo (never to /repo itself), builds the harness
# against it once and runs the quick tier of the named checks; appends one line per check to
# <out.tsv>:  <diff>\t<check>\t<caught|MISSED|BUILD-ERROR|NOAPPLY>\t<first signature>
# The worktree and all build output are removed afterwards.
OUT="$1"; DIFF="$2"; shift 2
ROOT="$(cd "$(dirname "$0")/.." && pwd)"
# work from a snapshot of the committed machinery so that edits in progress do not interfere
SNAP="$(mktemp -d /tmp/verif-snap.XXXXXX)"
git -C "$ROOT" archive HEAD engine hooks scripts known_findings.jsonl | tar -x -C "$SNAP"
ROOT="$SNAP"
WT="$(mktemp -d /tmp/mutwt.XXXXXX)"
name="$(basename "$DIFF")"
git -C /repo worktree add -f "$WT" HEAD -q --detach
cleanup() { git -C /repo worktree remove --force "$WT" 2>/dev/null; rm -rf "$WT" "$SNAP"; }
if ! git -C "$WT" apply "$DIFF" 2>/dev/null; then
  printf '%s\t-\tNOAPPLY\t\n' "$name" >> "$OUT"; cleanup; exit 0
fi
for id in "$@"; do
  SCR="$(mktemp -d /tmp/verif-seed.XXXXXX)"
  cp "$ROOT/known_findings.jsonl" "$SCR/"
  TMP="$(mktemp -d /tmp/verif.XXXXXX)"
  EXTRA=(); [ "$id" = C14 ] && EXTRA=(-stmt leveldb/memdb); [ "$id" = C17 ] && EXTRA=(-stmt leveldb/cache); case "$id" in C05|C09|C10|C18) EXTRA=(-stmt "$("$ROOT/scripts/stmtfiles.sh")") ;; esac
  if VERIF_REPO="$WT" "$ROOT/scripts/build.sh" "$TMP" "${EXTRA[@]}" >"$TMP/build.log" 2>&1; then
    VERIF_BUDGET_S="${VERIF_BUDGET_S:-1500}" VERIF_ROOT="$SCR" VERIF_RACE_AUDIT=0 timeout 4000 "$TMP/verif" run "$id" "${TIER:-quick}" > "$TMP/run.log" 2>&1
    rc=$?
    sig="$(grep -a -m1 signature "$TMP/run.log" | cut -c1-300 | tr '\t' ' ')"
    if [ $rc -eq 0 ]; then res=MISSED; else res=caught; fi
    [ $rc -ne 0 ] && [ -z "$sig" ] && sig="exit $rc: $(tail -2 "$TMP/run.log" | tr '\n\t' '  ' | cut -c1-200)"
    printf '%s\t%s\t%s\t%s\n' "$name" "$id" "$res" "$sig" >> "$OUT"
  else
    printf '%s\t%s\tBUILD-ERROR\t%s\n' "$name" "$id" "$(grep -m1 -E '\.go:[0-9]+' "$TMP/build.log" | cut -c1-200)" >> "$OUT"
  fi
  rm -rf "$TMP" "$SCR"
done
cleanup
