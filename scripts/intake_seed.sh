#!/bin/bash
# usage: intake_seed.sh <ID_suffix> <demo package dir>   — copies /tmp/seedwt/<ID_suffix>/_seed into seeded/<ID_suffix>/ and confirms it
ROOT="$(cd "$(dirname "$0")/.." && pwd)"
N="$1"; PKG="${2:-leveldb}"
SRC="/tmp/seedwt/$N/_seed"; DST="$ROOT/seeded/$N"
mkdir -p "$DST"
cp "$SRC/patch.diff" "$SRC/demo_test.go" "$SRC/notes.md" "$DST/" || exit 1
rm -f "$DST/confirm.log"
"$ROOT/scripts/confirm_seed.sh" "$DST" "$DST/confirm.log" "$PKG"
cat "$DST/confirm.log"
