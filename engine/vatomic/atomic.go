// Package vatomic mirrors sync/atomic functions on plain memory; every operation is a
// scheduling point (only one goroutine runs at a time, so plain accesses are atomic).
package vatomic

import (
	"unsafe"

	"verif/vsched"
)

func pt(p unsafe.Pointer) bool {
	return vsched.Point(vsched.OpAtomic, vsched.AddrKey(uintptr(p)), nil)
}

// ld is the scheduling point of a pure load (commutes with other loads).
func ld(p unsafe.Pointer) bool {
	return vsched.PointR(vsched.OpAtomic, vsched.AddrKey(uintptr(p)), nil)
}

func AddInt32(a *int32, d int32) int32                 { pt(unsafe.Pointer(a)); *a += d; return *a }
func AddInt64(a *int64, d int64) int64                 { pt(unsafe.Pointer(a)); *a += d; return *a }
func AddUint32(a *uint32, d uint32) uint32             { pt(unsafe.Pointer(a)); *a += d; return *a }
func AddUint64(a *uint64, d uint64) uint64             { pt(unsafe.Pointer(a)); *a += d; return *a }
func LoadInt32(a *int32) int32                         { ld(unsafe.Pointer(a)); return *a }
func LoadInt64(a *int64) int64                         { ld(unsafe.Pointer(a)); return *a }
func LoadUint32(a *uint32) uint32                      { ld(unsafe.Pointer(a)); return *a }
func LoadUint64(a *uint64) uint64                      { ld(unsafe.Pointer(a)); return *a }
func LoadPointer(a *unsafe.Pointer) unsafe.Pointer     { ld(unsafe.Pointer(a)); return *a }
func StoreInt32(a *int32, v int32)                     { pt(unsafe.Pointer(a)); *a = v }
func StoreInt64(a *int64, v int64)                     { pt(unsafe.Pointer(a)); *a = v }
func StoreUint32(a *uint32, v uint32)                  { pt(unsafe.Pointer(a)); *a = v }
func StoreUint64(a *uint64, v uint64)                  { pt(unsafe.Pointer(a)); *a = v }
func StorePointer(a *unsafe.Pointer, v unsafe.Pointer) { pt(unsafe.Pointer(a)); *a = v }
func SwapInt32(a *int32, v int32) int32                { pt(unsafe.Pointer(a)); o := *a; *a = v; return o }
func SwapInt64(a *int64, v int64) int64                { pt(unsafe.Pointer(a)); o := *a; *a = v; return o }
func SwapUint32(a *uint32, v uint32) uint32            { pt(unsafe.Pointer(a)); o := *a; *a = v; return o }
func SwapUint64(a *uint64, v uint64) uint64            { pt(unsafe.Pointer(a)); o := *a; *a = v; return o }
func SwapPointer(a *unsafe.Pointer, v unsafe.Pointer) unsafe.Pointer {
	pt(unsafe.Pointer(a))
	o := *a
	*a = v
	return o
}
func CompareAndSwapInt32(a *int32, o, n int32) bool {
	pt(unsafe.Pointer(a))
	if *a == o {
		*a = n
		return true
	}
	return false
}
func CompareAndSwapInt64(a *int64, o, n int64) bool {
	pt(unsafe.Pointer(a))
	if *a == o {
		*a = n
		return true
	}
	return false
}
func CompareAndSwapUint32(a *uint32, o, n uint32) bool {
	pt(unsafe.Pointer(a))
	if *a == o {
		*a = n
		return true
	}
	return false
}
func CompareAndSwapUint64(a *uint64, o, n uint64) bool {
	pt(unsafe.Pointer(a))
	if *a == o {
		*a = n
		return true
	}
	return false
}
func CompareAndSwapPointer(a *unsafe.Pointer, o, n unsafe.Pointer) bool {
	pt(unsafe.Pointer(a))
	if *a == o {
		*a = n
		return true
	}
	return false
}

// Typed values (not used by goleveldb today; provided so that a source change that
// introduces them still builds).
type Int32 struct{ v int32 }

func (x *Int32) Load() int32                    { return LoadInt32(&x.v) }
func (x *Int32) Store(v int32)                  { StoreInt32(&x.v, v) }
func (x *Int32) Add(d int32) int32              { return AddInt32(&x.v, d) }
func (x *Int32) Swap(v int32) int32             { return SwapInt32(&x.v, v) }
func (x *Int32) CompareAndSwap(o, n int32) bool { return CompareAndSwapInt32(&x.v, o, n) }

type Int64 struct{ v int64 }

func (x *Int64) Load() int64                    { return LoadInt64(&x.v) }
func (x *Int64) Store(v int64)                  { StoreInt64(&x.v, v) }
func (x *Int64) Add(d int64) int64              { return AddInt64(&x.v, d) }
func (x *Int64) Swap(v int64) int64             { return SwapInt64(&x.v, v) }
func (x *Int64) CompareAndSwap(o, n int64) bool { return CompareAndSwapInt64(&x.v, o, n) }

type Uint32 struct{ v uint32 }

func (x *Uint32) Load() uint32                    { return LoadUint32(&x.v) }
func (x *Uint32) Store(v uint32)                  { StoreUint32(&x.v, v) }
func (x *Uint32) Add(d uint32) uint32             { return AddUint32(&x.v, d) }
func (x *Uint32) CompareAndSwap(o, n uint32) bool { return CompareAndSwapUint32(&x.v, o, n) }

type Uint64 struct{ v uint64 }

func (x *Uint64) Load() uint64                    { return LoadUint64(&x.v) }
func (x *Uint64) Store(v uint64)                  { StoreUint64(&x.v, v) }
func (x *Uint64) Add(d uint64) uint64             { return AddUint64(&x.v, d) }
func (x *Uint64) CompareAndSwap(o, n uint64) bool { return CompareAndSwapUint64(&x.v, o, n) }

type Bool struct{ v uint32 }

func (x *Bool) Load() bool { return LoadUint32(&x.v) != 0 }
func (x *Bool) Store(b bool) {
	var v uint32
	if b {
		v = 1
	}
	StoreUint32(&x.v, v)
}

type Value struct{ v any }

func (x *Value) Load() any   { ld(unsafe.Pointer(x)); return x.v }
func (x *Value) Store(v any) { pt(unsafe.Pointer(x)); x.v = v }
