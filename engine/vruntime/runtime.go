// Package vruntime mirrors the few runtime functions goleveldb uses.
package vruntime

import (
	"runtime"

	"verif/vsched"
)

// SetFinalizer is a no-op: finalizers run at the GC's whim, which the scheduler does not
// own; goleveldb uses them only to release leaked handles.
func SetFinalizer(obj any, finalizer any) {}

func Gosched()                                                     { vsched.Yield() }
func GOMAXPROCS(n int) int                                         { return runtime.GOMAXPROCS(n) }
func NumCPU() int                                                  { return runtime.NumCPU() }
func NumGoroutine() int                                            { return runtime.NumGoroutine() }
func GC()                                                          {}
func KeepAlive(x any)                                              { runtime.KeepAlive(x) }
func Caller(skip int) (pc uintptr, file string, line int, ok bool) { return runtime.Caller(skip + 1) }
func Stack(buf []byte, all bool) int                               { return runtime.Stack(buf, all) }

type MemStats = runtime.MemStats

func ReadMemStats(m *MemStats) { runtime.ReadMemStats(m) }
