package explore

import (
	"encoding/json"
	"fmt"
	"os"
	"path/filepath"
	"regexp"
	"strconv"
	"strings"
	"sync/atomic"
	"time"
)

// Root is /verif (derived from the VERIF_ROOT env var set by scripts/check.sh).
func Root() string {
	if r := os.Getenv("VERIF_ROOT"); r != "" {
		return r
	}
	return "/verif"
}

// Ctx is handed to a check's coordinator.
type Ctx struct {
	ID       string
	Tier     string
	Seed     int64
	Start    time.Time
	Budget   time.Duration
	Level    string // evidence level
	Coverage map[string]any
	Assume   []string
	Viol     int
	Known    int
	Unconf   int
	findings []Finding
	reported map[string]bool
}

func NewCtx(id, tier, level string) *Ctx {
	c := &Ctx{ID: id, Tier: tier, Level: level, Start: time.Now(), Coverage: map[string]any{}, reported: map[string]bool{}}
	c.Seed, _ = strconv.ParseInt(os.Getenv("VERIF_SEED"), 10, 64)
	def := 600
	if tier == "thorough" {
		def = 1500
	}
	if s := os.Getenv("VERIF_BUDGET_S"); s != "" {
		if n, err := strconv.Atoi(s); err == nil {
			def = n
		}
	}
	c.Budget = time.Duration(def) * time.Second
	c.findings = LoadFindings()
	return c
}

func (c *Ctx) Elapsed() time.Duration { return time.Since(c.Start) }
func (c *Ctx) OutOfTime() bool        { return c.Elapsed() > c.Budget }

// Add increments an integer coverage counter.
func (c *Ctx) Add(key string, n int) {
	v, _ := c.Coverage[key].(int)
	c.Coverage[key] = v + n
}

// SetExhaustive ANDs into coverage.exhaustive.
func (c *Ctx) SetExhaustive(v bool) {
	if old, ok := c.Coverage["exhaustive"].(bool); ok {
		v = v && old
	}
	c.Coverage["exhaustive"] = v
}

func (c *Ctx) Get(key string) int { v, _ := c.Coverage[key].(int); return v }

// Sample appends to coverage.samples (bounded).
func (c *Ctx) Sample(v any) {
	s, _ := c.Coverage["samples"].([]any)
	if len(s) < 12 {
		c.Coverage["samples"] = append(s, v)
	}
}

// Finding is one entry of known_findings.jsonl.
type Finding struct {
	Status   string            `json:"status"` // open | fixed
	Property string            `json:"property"`
	What     string            `json:"what"`
	Commit   string            `json:"commit,omitempty"`
	Match    map[string]string `json:"match"` // field -> regexp over the violation's signature fields
}

func LoadFindings() []Finding {
	b, err := os.ReadFile(filepath.Join(Root(), "known_findings.jsonl"))
	if err != nil {
		return nil
	}
	var out []Finding
	for _, line := range strings.Split(string(b), "\n") {
		line = strings.TrimSpace(line)
		if line == "" || strings.HasPrefix(line, "#") {
			continue
		}
		var f Finding
		if err := json.Unmarshal([]byte(line), &f); err == nil {
			out = append(out, f)
		}
	}
	return out
}

// Violation is a confirmed property violation with a structural signature.
type Violation struct {
	Property string            `json:"property"`
	Sig      map[string]string `json:"signature"` // e.g. check, config, ops, effect
	Detail   any               `json:"detail"`
}

func (c *Ctx) matchKnown(v *Violation) *Finding {
	for i := range c.findings {
		f := &c.findings[i]
		if f.Status != "open" || f.Property != v.Property || len(f.Match) == 0 {
			continue
		}
		ok := true
		for k, re := range f.Match {
			m, err := regexp.MatchString(re, v.Sig[k])
			if err != nil || !m {
				ok = false
				break
			}
		}
		if ok {
			return f
		}
	}
	return nil
}

// Report handles a confirmed violation: known findings print KNOWN-FINDING (once per
// finding), anything else writes a replay file and prints the VIOLATION line.
func (c *Ctx) Report(v *Violation) bool {
	if f := c.matchKnown(v); f != nil {
		c.Known++
		if !c.reported[f.What] {
			c.reported[f.What] = true
			fmt.Printf("KNOWN-FINDING: property=%s %s\n", v.Property, f.What)
		}
		return true
	}
	c.Viol++
	if c.Viol > 20 {
		return false
	}
	dir := filepath.Join(Root(), "replays")
	os.MkdirAll(dir, 0o755)
	b, _ := json.MarshalIndent(v, "", " ")
	h := uint32(2166136261)
	for _, x := range b {
		h = (h ^ uint32(x)) * 16777619
	}
	path := filepath.Join(dir, fmt.Sprintf("%s-%08x.json", v.Property, h))
	os.WriteFile(path, b, 0o644)
	fmt.Printf("VIOLATION property=%s replay=%s\n", v.Property, path)
	if c.Viol <= 3 {
		fmt.Printf("  signature: %v\n", v.Sig)
	}
	return false
}

// Finish writes the evidence file and returns the process exit code.
func (c *Ctx) Finish() int {
	ev := map[string]any{
		"property_id": c.ID,
		"tier":        c.Tier,
		"seed":        c.Seed,
		"level":       c.Level,
		"coverage":    c.Coverage,
		"assumptions": c.Assume,
		"wall_s":      float64(int(c.Elapsed().Seconds()*100)) / 100,
		"violations":  c.Viol,
	}
	if ra := os.Getenv("VERIF_RACE_AUDIT"); ra != "" {
		c.Coverage["race_audit_free_running"] = ra
	}
	if n := atomic.LoadInt64(&WorkerTimeouts); n > 0 {
		// wall-clock limits of the machinery were hit: those tasks were not decided
		c.Coverage["worker_wallclock_timeouts"] = n
		c.Coverage["exhaustive"] = false
	}
	c.Coverage["known_findings_hit"] = c.Known
	c.Coverage["unconfirmed"] = c.Unconf
	if _, ok := c.Coverage["samples"]; !ok {
		c.Coverage["samples"] = []any{}
	}
	dir := filepath.Join(Root(), "evidence")
	os.MkdirAll(dir, 0o755)
	b, _ := json.MarshalIndent(ev, "", " ")
	if err := os.WriteFile(filepath.Join(dir, c.ID+".json"), append(b, '\n'), 0o644); err != nil {
		fmt.Fprintln(os.Stderr, "evidence:", err)
		return 2
	}
	fmt.Printf("%s %s: violations=%d known=%d wall=%.1fs exhaustive=%v\n", c.ID, c.Tier, c.Viol, c.Known, c.Elapsed().Seconds(), c.Coverage["exhaustive"])
	if c.Viol > 0 {
		return 1
	}
	return 0
}
