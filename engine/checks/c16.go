package checks

import (
	"encoding/json"
	"fmt"

	"github.com/syndtr/goleveldb/leveldb/filter"
	"github.com/syndtr/goleveldb/leveldb/opt"
	"github.com/syndtr/goleveldb/leveldb/util"
	"verif/explore"
	"verif/harness"
)

// C16 — filters never hide a stored key. (1) bloom filter: for bits-per-key 1..64, every
// subset of a 12-key universe (plus counter-generated sets of 100/1000/10^4 keys in
// thorough): every added key is reported present. (2) filter block: tables with tiny blocks
// and every filter base (many partitions, empty partitions): Get of every stored key
// succeeds (C13 machinery). (3) DB: every operation sequence up to a depth under
// {no filter, bloom 1/10/64} and "written with bloom10, reopened with no filter / another
// policy + AltFilters" returns exactly what the model returns.

var c16Universe = []string{"", "a", "aa", "ab", "b", "b\xff", "\x00", "\xff\xff\xff", "key-000001", "key-000002", "a-very-long-key-with-many-bytes-0123456789", "c"}

type c16Task struct {
	Kind string   `json:"kind"` // bloom | big
	Bits int      `json:"bits"`
	From int      `json:"from"`
	To   int      `json:"to"`
	N    int      `json:"n"`
	Seq  *seqTask `json:"seq,omitempty"`
}

type c16Result struct {
	Sets, Probes int
	Viol         []string
}

func runC16(t *c16Task) *c16Result {
	res := &c16Result{}
	f := filter.NewBloomFilter(t.Bits)
	switch t.Kind {
	case "bloom":
		for mask := t.From; mask < t.To; mask++ {
			g := f.NewGenerator()
			var keys [][]byte
			for i, k := range c16Universe {
				if mask&(1<<i) != 0 {
					g.Add([]byte(k))
					keys = append(keys, []byte(k))
				}
			}
			buf := &util.Buffer{}
			g.Generate(buf)
			res.Sets++
			for _, k := range keys {
				res.Probes++
				if !f.Contains(buf.Bytes(), k) {
					res.Viol = append(res.Viol, fmt.Sprintf("bloom(%d) built from subset %#x does not contain added key %q", t.Bits, mask, k))
					return res
				}
			}
			// the generator may be reused after Generate
			g.Add([]byte("again"))
			buf2 := &util.Buffer{}
			g.Generate(buf2)
			if !f.Contains(buf2.Bytes(), []byte("again")) {
				res.Viol = append(res.Viol, fmt.Sprintf("bloom(%d): reused generator lost its key", t.Bits))
				return res
			}
		}
	case "big":
		g := f.NewGenerator()
		key := func(i int) []byte { return []byte(fmt.Sprintf("k%07d-%x", i, i*2654435761)) }
		for i := 0; i < t.N; i++ {
			g.Add(key(i))
		}
		buf := &util.Buffer{}
		g.Generate(buf)
		res.Sets++
		for i := 0; i < t.N; i++ {
			res.Probes++
			if !f.Contains(buf.Bytes(), key(i)) {
				res.Viol = append(res.Viol, fmt.Sprintf("bloom(%d) over %d keys does not contain added key #%d", t.Bits, t.N, i))
				return res
			}
		}
	}
	return res
}

// c16Filter returns the Options mutation for a named filter setting; opens counts the opens
// of the current world (0 = first open).
// c16Alts keeps ONE AltFilters slice per setting for the whole life of a world: an application
// passes the same Options value (hence the same slice) to every Open, and the library must not
// have changed it in between.
var c16Alts = map[string][]filter.Filter{}

func c16Filter(name string, opens int, o *opt.Options) {
	defer func() {
		if len(o.AltFilters) == 0 {
			return
		}
		key := fmt.Sprintf("%s/%d", name, len(o.AltFilters))
		if opens <= 1 || c16Alts[key] == nil {
			c16Alts[key] = o.AltFilters // first Open that uses alternatives: remember the slice
		} else {
			o.AltFilters = c16Alts[key] // later Opens: the very same slice again
		}
	}()
	b := func(n int) filter.Filter { return filter.NewBloomFilter(n) }
	switch name {
	case "none":
		o.Filter = nil
	case "bloom1":
		o.Filter = b(1)
	case "bloom10":
		o.Filter = b(10)
	case "bloom64":
		o.Filter = b(64)
	case "b10-then-none":
		if opens == 0 {
			o.Filter = b(10)
		} else {
			o.Filter = nil
		}
	case "b10-then-b64alt":
		if opens == 0 {
			o.Filter = b(10)
		} else {
			o.Filter = b(64)
			o.AltFilters = []filter.Filter{b(10)}
		}
	case "exact":
		o.Filter = harness.ExactFilter{}
	case "exact-then-none+alt":
		// the policy is switched off but still named as an alternative: old tables keep using it
		if opens == 0 {
			o.Filter = harness.ExactFilter{}
		} else {
			o.Filter = nil
			o.AltFilters = []filter.Filter{harness.ExactFilter{}}
		}
	case "exact-then-b10+alt":
		if opens == 0 {
			o.Filter = harness.ExactFilter{}
		} else {
			o.Filter = b(10)
			o.AltFilters = []filter.Filter{harness.ExactFilter{Tag: "-unused"}, harness.ExactFilter{}}
		}
	case "b10-then-exact+alt":
		if opens == 0 {
			o.Filter = b(10)
		} else {
			o.Filter = harness.ExactFilter{}
			o.AltFilters = []filter.Filter{b(10)}
		}
	case "exact-then-exact2noalt":
		if opens == 0 {
			o.Filter = harness.ExactFilter{}
		} else {
			o.Filter = harness.ExactFilter{Tag: "2"}
		}
	case "exact-lg1-then-lg5", "exact-lg5-then-lg1", "b10-lg0-then-lg7":
		// the same policy, another filter partition size after the reopen: the size a table was
		// written with is stored in the table and must be the one used to read it
		lgs := map[string][2]int{"exact-lg1-then-lg5": {1, 5}, "exact-lg5-then-lg1": {5, 1}, "b10-lg0-then-lg7": {0, 7}}[name]
		if name[0] == 'e' {
			o.Filter = harness.ExactFilter{}
		} else {
			o.Filter = b(10)
		}
		if opens == 0 {
			o.FilterBaseLg = lgs[0]
		} else {
			o.FilterBaseLg = lgs[1]
		}
		return
	case "exact-then-b10noalt", "b10-then-exactnoalt":
		// the policy is replaced by one with another name AND another filter format, and the old
		// one is not offered as an alternative: old tables must be read without any filter
		first, second := filter.Filter(harness.ExactFilter{}), b(10)
		if name[0] == 'b' {
			first, second = second, first
		}
		if opens == 0 {
			o.Filter = first
		} else {
			o.Filter = second
		}
	case "exact-then-none+b10alt":
		// no effective policy, and an alternative that is NOT the one the tables were written with
		if opens == 0 {
			o.Filter = harness.ExactFilter{}
		} else {
			o.Filter = nil
			o.AltFilters = []filter.Filter{b(10)}
		}
	case "b10-then-b1noalt":
		// another policy without AltFilters: old tables' filters are simply not used
		if opens == 0 {
			o.Filter = b(10)
		} else {
			o.Filter = b(1)
		}
	}
	o.FilterBaseLg = 1
}

var c16Settings = []string{"none", "bloom1", "bloom10", "bloom64", "b10-then-none", "b10-then-b64alt", "b10-then-b1noalt",
	"exact", "exact-then-none+alt", "exact-then-b10+alt", "b10-then-exact+alt", "exact-then-exact2noalt",
	"exact-lg1-then-lg5", "exact-lg5-then-lg1", "b10-lg0-then-lg7", "exact-then-b10noalt", "b10-then-exactnoalt", "exact-then-none+b10alt"}

func init() {
	hk := &seqHooks{Setup: func(w *harness.World, t *seqTask) {
		opens := 0
		name := t.Mode
		w.OpenOpts = func(o *opt.Options) {
			c16Filter(name, opens, o)
			opens++
		}
	}}
	seqW := seqWorker(hk)
	register(&Check{
		ID:    "C16",
		Level: "model_checking",
		Worker: func(task []byte) []byte {
			var probe struct {
				Kind string   `json:"kind"`
				Cfg  string   `json:"cfg"`
				Grid *c13Grid `json:"grid"`
			}
			json.Unmarshal(task, &probe)
			switch {
			case probe.Grid != nil:
				var t c13Task
				json.Unmarshal(task, &t)
				return explore.MustJSON(runC13(&t))
			case probe.Cfg != "":
				return seqW(task)
			}
			var t c16Task
			json.Unmarshal(task, &t)
			return explore.MustJSON(runC16(&t))
		},
		Main: func(c *explore.Ctx) {
			pool := explore.NewPool(0, "worker", "C16")
			defer pool.Close()
			quick := c.Tier == "quick"
			// (1) bloom filter
			var raw [][]byte
			var metas []string
			for bits := 1; bits <= 64; bits++ {
				for from := 0; from < 4096; from += 1024 {
					raw = append(raw, explore.MustJSON(c16Task{Kind: "bloom", Bits: bits, From: from, To: from + 1024}))
					metas = append(metas, fmt.Sprintf("bloom bits=%d", bits))
				}
				if !quick {
					for _, n := range []int{100, 1000, 10000} {
						raw = append(raw, explore.MustJSON(c16Task{Kind: "big", Bits: bits, N: n}))
						metas = append(metas, fmt.Sprintf("big bits=%d n=%d", bits, n))
					}
				}
			}
			pool.Map(raw, func(i int, b []byte, err error) {
				var r c16Result
				if err != nil {
					r.Viol = explore.CrashViol(err)
				} else {
					json.Unmarshal(b, &r)
				}
				c.Add("bloom_sets", r.Sets)
				c.Add("bloom_membership_probes", r.Probes)
				c.Add("transitions", r.Probes)
				for _, v := range r.Viol {
					c.Report(&explore.Violation{Property: "C16", Sig: map[string]string{"check": "bloom", "effect": v}, Detail: map[string]any{"task": metas[i], "violation": v}})
				}
			})
			// (2) filter blocks in tables: many partitions / empty partitions
			var tt []c13Task
			for _, bs := range []int{1, 16} {
				for _, lg := range []int{1, 2, 4, 11} {
					for _, bits := range []int{1, 10, 64} {
						for _, ik := range []bool{false, true} {
							g := c13Grid{BlockSize: bs, Restart: 2, Bloom: true, BaseLg: lg, Mode: "cachepool", IKey: ik, Bits: bits}
							for from := 0; from < 1024; from += 256 {
								tt = append(tt, c13Task{Grid: g, From: from, To: from + 256, Depth: 0})
							}
						}
					}
				}
			}
			raw = raw[:0]
			for _, t := range tt {
				raw = append(raw, explore.MustJSON(t))
			}
			pool.Map(raw, func(i int, b []byte, err error) {
				var r c13Result
				if err != nil {
					r.Viol = explore.CrashViol(err)
				} else {
					json.Unmarshal(b, &r)
				}
				c.Add("filter_block_tables", r.Tables)
				c.Add("filter_block_lookups", r.Lookups)
				c.Add("transitions", r.Lookups)
				for _, v := range r.Viol {
					c.Report(&explore.Violation{Property: "C16", Sig: map[string]string{"check": "filterblock", "grid": tt[i].Grid.String(), "effect": v}, Detail: map[string]any{"task": tt[i], "violation": v}})
				}
			})
			// (2b) a damaged filter block (every byte of it and of its trailer, three patterns) changes no
			// answer, whether or not the reader verifies data-block checksums
			tt = tt[:0]
			for _, ns := range []bool{false, true} {
				for _, ik := range []bool{false, true} {
					for _, lg := range []int{2, 11} {
						g := c13Grid{BlockSize: 16, Restart: 2, Bloom: true, BaseLg: lg, Mode: map[bool]string{false: "cachepool", true: "nocache"}[ik], IKey: ik, NoStrict: ns}
						top := 1024
						if quick {
							top = 256
						}
						for from := 0; from < top; from += 32 {
							tt = append(tt, c13Task{Grid: g, From: from, To: from + 32, Damage: true, FilterOnly: true})
						}
					}
				}
			}
			raw = raw[:0]
			for _, t := range tt {
				raw = append(raw, explore.MustJSON(t))
			}
			pool.Map(raw, func(i int, b []byte, err error) {
				var r c13Result
				if err != nil {
					r.Viol = explore.CrashViol(err)
				} else {
					json.Unmarshal(b, &r)
				}
				c.Add("filter_blocks_damaged", r.FilterDamaged)
				c.Add("filter_damage_lookups", r.Lookups)
				c.Add("transitions", r.Lookups)
				for _, v := range r.Viol {
					c.Report(&explore.Violation{Property: "C16", Sig: map[string]string{"check": "filterdamage", "grid": tt[i].Grid.String(), "effect": v}, Detail: map[string]any{"task": tt[i], "violation": v}})
				}
			})
			// (3) DB programs under different filter settings
			depth := 4
			if !quick {
				depth = 5
			}
			var specs []seqSpec
			for _, m := range c16Settings {
				specs = append(specs, seqSpec{Cfg: "flushy/bytewise", Alpha: c01Alpha, Depth: depth, Checks: "db", Mode: m})
			}
			// older versions kept for snapshots live in the same table as newer ones, possibly in
			// another filter partition: snapshot reads must not depend on the filter either
			for _, m := range []string{"none", "bloom10", "b10-then-b64alt", "exact", "exact-then-b10+alt"} {
				specs = append(specs, seqSpec{Cfg: "flushy/bytewise", Alpha: c03Alpha, Depth: depth + 1, Checks: "db,views", Mode: m})
			}
			specs = append(specs, seqSpec{Cfg: "wide/bytewise", Alpha: c01Alpha, Depth: depth, Checks: "db", Mode: "bloom1"},
				seqSpec{Cfg: "wide/bytewise", Alpha: c01Alpha, Depth: depth, Checks: "db", Mode: "b10-then-b64alt"})
			// tables with several data blocks (hence several filter partitions): the settings whose
			// effect depends on which partition is consulted
			for _, m := range []string{"exact", "exact-lg1-then-lg5", "exact-lg5-then-lg1", "exact-then-none+alt"} {
				specs = append(specs, seqSpec{Cfg: "wide/bytewise", Alpha: c01Alpha, Depth: depth, Checks: "db", Mode: m},
					seqSpec{Cfg: "mixed/bytewise", Alpha: c01RichAlpha, Depth: depth, Checks: "db", Mode: m})
			}
			layouts := map[string]int{}
			exh := true
			for _, sp := range specs {
				st := bfs(c, pool, sp, "C16")
				c.Add("states", st.States)
				c.Add("transitions", st.Transitions)
				c.Add("traces_validated_against_impl", st.Transitions)
				mergeLayouts(layouts, st.Layouts)
				if !st.Exhaustive || st.MaxDepth < sp.Depth {
					exh = false
				}
				fmt.Printf("  %-16s %-18s depth %d/%d states=%d transitions=%d\n", sp.Cfg, sp.Mode, st.MaxDepth, sp.Depth, st.States, st.Transitions)
			}
			c.SetExhaustive(exh)
			c.Coverage["db_layout_classes"] = len(layouts)
			c.Sample(map[string]any{"bloom_universe": c16Universe[:6], "bits": "1..64", "db_filter_settings": c16Settings})
			c.Coverage["rule"] = "(1) bits-per-key 1..64 x every subset of a 12-key universe (thorough: + generated sets of 100, 1000, 10^4 keys): every added key must be reported present, also after reusing the generator; (2) every subset of the C13 universe in tables with block size {1,16} x filter base {1,2,4,11} x bits {1,10,64} x raw/internal keys: every exact and >= lookup must find the stored pair; (3) states/transitions: BFS over DB operation sequences (C01 alphabet) under 18 filter settings (incl. a changed FilterBaseLg after the reopen) (bloom with 1/10/64 bits, and an exact-set policy with its own name and no false positives, so that any lookup consulting a filter with a key in the wrong form misses) including tables written under one policy and reopened with no filter, with no filter + the old policy in AltFilters, with another policy + AltFilters, with another policy without AltFilters; every read must equal the sorted-map model, hence all settings agree"
			c.Assume = []string{"'all key sets up to 10^4' is covered as all subsets of a 12-key universe plus a finite generated family, not all sets"}
		},
	})
}
