package checks

import (
	"encoding/json"
	"fmt"

	"verif/explore"
)

// C01 — reads return the latest write: BFS over public-API sequences under layout-forcing
// option sets and comparers; after every step Get/Has for every probe and a full scan in
// both directions are compared with a sorted-map model.

var c01Alpha = []string{"put:a", "put:b", "put:c", "del:a", "del:b", "putE:b", "putL:c", "b1", "b2", "cr", "crb", "q", "re"}
var c01RichAlpha = []string{"put:a", "put:b", "put:c", "del:a", "del:b", "del:c", "w:-a,-c", "w:-b,+a", "cr", "crb", "q", "re"}

// the zero-length key is an ordinary key: every place that uses "no key yet" / len==0 as a
// sentinel must still treat it as one (alphabet with "" as the smallest of three keys)
var emptyKeyAlpha = []string{"put:", "put:a", "put:b", "del:", "del:a", "putL:", "w:-,+a", "w:+,+,-b", "cr", "crk:", "q", "re"}
var emptyKeyProbes = []string{"", "a", "b", "%00", "ab"}

// key shapes named by the property: runs of 0xff (no successor, no shorter separator), keys
// sharing a prefix longer than a block, a key that is a prefix of another
var shapeAlpha = []string{"put:%ff", "put:%ff%ff", "put:pppppppppppppppppp1", "put:pppppppppppppppppp", "putL:pppppppppppppppppp2", "del:%ff", "del:pppppppppppppppppp1", "w:+%ff%ff,-pppppppppppppppppp", "cr", "crk:%ff", "q", "re"}
var shapeProbes = []string{"", "%ff", "%ff%ff", "%ff%ff%ff", "%fe", "pppppppppppppppppp", "pppppppppppppppppp1", "pppppppppppppppppp2", "pppppppppppppppppp10", "ppppppppppppppppp", "q"}

var c01AlphaBig = append(append([]string{}, c01Alpha...), "big")

// key sets under which each custom comparer orders keys differently from bytes.Compare
var cmpKeys = map[string][3]string{
	"shortlex": {"b", "aa", "c"},
	"revtail":  {"a", "b", "c"},
	"xormap":   {"a", "%81", "b"},
	"lazy":     {"a", "ab", "b"},
}

func cmpAlpha(k string) ([]string, []string) {
	ks := cmpKeys[k]
	a := []string{"put:" + ks[0], "put:" + ks[1], "put:" + ks[2], "del:" + ks[0], "del:" + ks[1],
		"w:+" + ks[0] + ",-" + ks[1], "w:+" + ks[1] + ",+" + ks[1] + ",-" + ks[2], "cr", "crk:" + ks[1], "q", "re"}
	p := []string{"", ks[0], ks[1], ks[2], "ab", "d", "b%ff", "%80"}
	return a, p
}

func c01Specs(tier string) []seqSpec {
	var out []seqSpec
	addCmp := func(os, k string, d int) {
		a, p := cmpAlpha(k)
		out = append(out, seqSpec{Cfg: os + "/" + k, Alpha: a, Depth: d, Checks: "db", Probes: p})
	}
	add := func(cfg string, alpha []string, d int) {
		out = append(out, seqSpec{Cfg: cfg, Alpha: alpha, Depth: d, Checks: "db"})
	}
	// the same search with a full read-back after EVERY step of every path: reads fill the
	// caches, so cache-dependent defects (stale blocks) need reads in the middle of a program
	addEvery := func(cfg string, alpha []string, d int) {
		out = append(out, seqSpec{Cfg: cfg, Alpha: alpha, Depth: d, Checks: "db", Mode: "every"})
	}
	if tier == "quick" {
		addEvery("flushy/bytewise", c01Alpha, 3)
		addEvery("bigbatch/bytewise", c01AlphaBig, 3)
		add("flushy/bytewise", c01Alpha, 4)
		out = append(out, seqSpec{Cfg: "flushy/bytewise", Alpha: emptyKeyAlpha, Depth: 4, Checks: "db", Probes: emptyKeyProbes, Mode: "emptykey"})
		out = append(out, seqSpec{Cfg: "deep/bytewise", Alpha: emptyKeyAlpha, Depth: 3, Checks: "db", Probes: emptyKeyProbes, Mode: "emptykey"})
		out = append(out, seqSpec{Cfg: "flushy/bytewise", Alpha: shapeAlpha, Depth: 3, Checks: "db", Probes: shapeProbes, Mode: "keyshapes"})
		out = append(out, seqSpec{Cfg: "mixed/bytewise", Alpha: shapeAlpha, Depth: 3, Checks: "db", Probes: shapeProbes, Mode: "keyshapes"})
		add("rot/bytewise", c01Alpha, 4)
		add("bigbatch/bytewise", c01AlphaBig, 4)
		add("nobig/bytewise", c01AlphaBig, 3)
		add("deep/bytewise", c01Alpha, 4)
		add("wide/bytewise", c01AlphaBig, 4)
		add("default/bytewise", c01AlphaBig, 3)
		add("snappy/bytewise", c01Alpha, 3)
		add("tinycache/bytewise", c01Alpha, 3)
		add("throttle/bytewise", c01Alpha, 3) // writers wait for the table compaction at two level-0 tables
		add("tightcomp/bytewise", c01Alpha, 4)
		for _, k := range []string{"shortlex", "revtail", "xormap", "lazy"} {
			addCmp("flushy", k, 4)
			addCmp("wide", k, 3)
		}
	} else {
		addEvery("flushy/bytewise", c01Alpha, 4)
		addEvery("bigbatch/bytewise", c01AlphaBig, 4)
		addEvery("tinycache/bytewise", c01Alpha, 4)
		addEvery("deep/bytewise", c01Alpha, 4)
		add("flushy/bytewise", c01Alpha, 5)
		out = append(out, seqSpec{Cfg: "flushy/bytewise", Alpha: emptyKeyAlpha, Depth: 5, Checks: "db", Probes: emptyKeyProbes, Mode: "emptykey"})
		out = append(out, seqSpec{Cfg: "deep/bytewise", Alpha: emptyKeyAlpha, Depth: 5, Checks: "db", Probes: emptyKeyProbes, Mode: "emptykey"})
		out = append(out, seqSpec{Cfg: "wide/bytewise", Alpha: emptyKeyAlpha, Depth: 4, Checks: "db", Probes: emptyKeyProbes, Mode: "emptykey"})
		out = append(out, seqSpec{Cfg: "flushy/bytewise", Alpha: shapeAlpha, Depth: 5, Checks: "db", Probes: shapeProbes, Mode: "keyshapes"})
		out = append(out, seqSpec{Cfg: "mixed/bytewise", Alpha: shapeAlpha, Depth: 5, Checks: "db", Probes: shapeProbes, Mode: "keyshapes"})
		out = append(out, seqSpec{Cfg: "snappy/bytewise", Alpha: shapeAlpha, Depth: 4, Checks: "db", Probes: shapeProbes, Mode: "keyshapes"})
		add("rot/bytewise", c01Alpha, 5)
		add("deep/bytewise", c01Alpha, 5)
		add("bigbatch/bytewise", c01AlphaBig, 5)
		add("nobig/bytewise", c01AlphaBig, 4)
		add("wide/bytewise", c01AlphaBig, 5)
		add("default/bytewise", c01AlphaBig, 4)
		add("snappy/bytewise", c01Alpha, 4)
		add("tinycache/bytewise", c01Alpha, 4)
		add("seeky/bytewise", c01Alpha, 4)
		add("throttle/bytewise", c01Alpha, 4)
		add("tightcomp/bytewise", c01Alpha, 5)
		for _, k := range []string{"shortlex", "revtail", "xormap", "lazy"} {
			addCmp("flushy", k, 5)
			addCmp("wide", k, 5)
		}
	}
	return out
}

func init() {
	register(&Check{
		ID:    "C01",
		Level: "model_checking",
		Worker: func(task []byte) []byte {
			var t seqTask
			if err := json.Unmarshal(task, &t); err != nil {
				return explore.MustJSON(seqResult{Viol: []string{"bad task: " + err.Error()}})
			}
			return explore.MustJSON(runSeq(&t, nil))
		},
		Main: func(c *explore.Ctx) {
			pool := explore.NewPool(0, "worker", "C01")
			defer pool.Close()
			layouts := map[string]int{}
			perCfg := map[string]any{}
			exh := true
			specs := c01Specs(c.Tier)
			// second pass: continue the search from deep / tombstone-rich / multi-table layouts
			rd, rmax, ext := 6, 8, 3
			if c.Tier == "thorough" {
				rd, rmax, ext = 7, 24, 4
			}
			for _, cfg := range []string{"mixed/bytewise", "deep/bytewise"} {
				hs, feats := findRichHistories(c, pool, cfg, richAlpha, rd, rmax)
				c.Coverage["layout_features_"+cfg] = feats
				specs = append(specs, seqSpec{Cfg: cfg, Alpha: c01RichAlpha, Depth: ext, Checks: "db", Mode: "from-rich-states", Prefixes: hs})
			}
			for _, sp := range specs {
				if !cfgSelected(sp.Cfg) {
					continue
				}
				st := bfs(c, pool, sp, "C01")
				c.Add("states", st.States)
				c.Add("transitions", st.Transitions)
				c.Add("traces_validated_against_impl", st.Transitions)
				mergeLayouts(layouts, st.Layouts)
				perCfg[sp.Cfg+"#"+sp.Mode] = map[string]any{"states": st.States, "transitions": st.Transitions, "depth_completed": st.MaxDepth, "depth_target": sp.Depth, "exhaustive": st.Exhaustive}
				if !st.Exhaustive || st.MaxDepth < sp.Depth {
					exh = false
				}
				fmt.Printf("  %-22s depth %d/%d states=%d transitions=%d layouts=%d\n", sp.Cfg, st.MaxDepth, sp.Depth, st.States, st.Transitions, len(st.Layouts))
			}
			c.Coverage["exhaustive"] = exh
			c.Coverage["per_config"] = perCfg
			c.Coverage["layout_classes"] = layouts
			c.Coverage["distinct_layout_classes"] = len(layouts)
			c.Coverage["worker_crashes"] = pool.Crashes
			c.Coverage["rule"] = "breadth-first search over all sequences of public API operations up to the stated depth per configuration; a state is the canonical physical state (storage bytes, buffers, version, sequence, model); every transition is executed on the real DB under the deterministic scheduler and compared with a sorted-map model (Get/Has on 7 probe keys + full forward and backward scan)"
			c.Assume = []string{
				"keys from {a,b,c}, probes {\"\",a,aa,b,b\\xff,c,d}, values unique per step plus empty / 100-byte shapes; large data volumes are reached by scaling options down, not data up",
				"background work runs only when the client blocks or issues the explicit Quiesce operation (all such placements up to the depth are enumerated); other interleavings belong to C05",
				"state de-duplication ignores block-cache contents and buffer-pool contents",
			}
		},
	})
}
