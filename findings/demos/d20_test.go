package findings

import (
	"testing"

	"github.com/syndtr/goleveldb/leveldb"
	"github.com/syndtr/goleveldb/leveldb/storage"
)

// D20 (C03/C11): the sequence numbers a transaction had assigned to its writes were handed
// out again after Discard. An iterator created on the transaction may outlive it (its
// documentation says so); it then showed a *later* DB write that reused one of those numbers
// instead of the frozen contents it was created on.
func TestD20_DiscardedTransactionIteratorSeesLaterWrite(t *testing.T) {
	o := flushy()
	o.WriteBuffer = 40
	db, err := leveldb.Open(storage.NewMemStorage(), o)
	if err != nil {
		t.Fatal(err)
	}
	defer db.Close()
	tr, err := db.OpenTransaction()
	if err != nil {
		t.Fatal(err)
	}
	if err := tr.Put([]byte("a"), []byte("in-transaction-value"), nil); err != nil {
		t.Fatal(err)
	}
	it := tr.NewIterator(nil, nil)
	defer it.Release()
	tr.Discard()
	if err := db.Put([]byte("a"), []byte("v"), nil); err != nil {
		t.Fatal(err)
	}
	for _, move := range []struct {
		name string
		f    func() bool
	}{{"First", it.First}, {"Last", it.Last}} {
		if !move.f() {
			t.Fatalf("%s: iterator lost its entry: %v", move.name, it.Error())
		}
		if got := string(it.Value()); got != "in-transaction-value" {
			t.Fatalf("%s: iterator created before the write shows %q=%q", move.name, it.Key(), got)
		}
	}
}
