package findings

import (
	"testing"

	"github.com/syndtr/goleveldb/leveldb"
	"github.com/syndtr/goleveldb/leveldb/opt"
	"github.com/syndtr/goleveldb/leveldb/storage"
)

// D19 (C18): a read-only Open failed with "EOF" whenever two journal files had to be
// replayed (a frozen write buffer whose flush had not finished when the DB was closed):
// recoverJournalRO treated the io.EOF remembered by the journal reader from the previous
// file as an error of Reset. The read-write recovery ignores it.
func TestD19_ReadOnlyOpenWithTwoJournals(t *testing.T) {
	f := newFaulty()
	o := flushy()
	db, err := leveldb.Open(f, o)
	if err != nil {
		t.Fatal(err)
	}
	// the flush of the frozen buffer cannot create its table: the old journal stays
	f.failCreate[storage.TypeTable] = 1 << 30
	f.arm(true)
	if err := db.Put([]byte("a"), []byte("v1"), nil); err != nil { // fills the 1-byte buffer: rotation
		t.Fatal(err)
	}
	if err := db.Put([]byte("b"), []byte("v2"), nil); err != nil {
		t.Logf("second put: %v", err)
	}
	db.Close()
	f.arm(false)
	js, _ := f.List(storage.TypeJournal)
	if len(js) < 2 {
		t.Skipf("setup did not leave two journals (%v)", js)
	}
	ro := *o
	ro.ReadOnly = true
	db, err = leveldb.Open(f, &ro)
	if err != nil {
		t.Fatalf("read-only Open with %d journals: %v", len(js), err)
	}
	defer db.Close()
	mustGet(t, db, "a", "v1")
	_ = opt.Options{}
}
