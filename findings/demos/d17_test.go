package findings

import (
	"fmt"
	"sync"
	"testing"

	"github.com/syndtr/goleveldb/leveldb"
	"github.com/syndtr/goleveldb/leveldb/storage"
	"github.com/syndtr/goleveldb/leveldb/util"
)

// D17 (C18/C09): a Get racing with Close could crash with "interface conversion: cache.Value
// is nil, not *table.Reader": Close force-closes the open-files cache, which clears the value
// of a cache node between tOps.open returning its handle and the type assertion on its
// value. The exact schedule is replayed deterministically by the C09 check (driver
// two-tables-one-slot-vs-close); this stress version needs luck and is only indicative.
func TestD17_GetRacingCloseMustNotPanic(t *testing.T) {
	if testing.Short() {
		t.Skip("stress")
	}
	for round := 0; round < 3000; round++ {
		o := flushy()
		o.OpenFilesCacheCapacity = 1
		db, err := leveldb.Open(storage.NewMemStorage(), o)
		if err != nil {
			t.Fatal(err)
		}
		for _, k := range []string{"a", "b", "c"} {
			db.Put([]byte(k), []byte("v"), nil)
		}
		db.CompactRange(util.Range{})
		var wg sync.WaitGroup
		panicked := make(chan string, 4)
		for g := 0; g < 3; g++ {
			wg.Add(1)
			go func() {
				defer wg.Done()
				defer func() {
					if r := recover(); r != nil {
						panicked <- fmt.Sprint(r)
					}
				}()
				for i := 0; i < 50; i++ {
					for _, k := range []string{"a", "c", "b"} {
						if _, err := db.Get([]byte(k), nil); err == leveldb.ErrClosed {
							return
						}
					}
				}
			}()
		}
		db.Close()
		wg.Wait()
		select {
		case p := <-panicked:
			t.Fatalf("round %d: Get racing Close panicked: %s", round, p)
		default:
		}
	}
}
