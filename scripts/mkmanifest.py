#!/usr/bin/env python3
"""Regenerates /verif/MANIFEST.json from the table below (single source of truth)."""
import json, os
ROOT = os.path.dirname(os.path.dirname(os.path.abspath(__file__)))
props = [json.loads(l)['id'] for l in open(os.path.join(ROOT, 'properties.jsonl'))]

CHECKS = {
 'C01': dict(level='model_checking', technique='explicit-state breadth-first search over public-API operation sequences on the real DB under a deterministic cooperative scheduler, canonical-state de-duplication, sorted-map reference model',
   text='Every sequence of Put/Delete/Write/CompactRange/Quiesce/Reopen up to the stated depth is executed on the real code for each layout-forcing option set and each of five comparers; after every transition Get/Has on probe keys and a full two-way scan must equal a sorted-map model. Exhaustive within the depth, so any read-path or compaction defect reachable by a short program under those layouts is found with its shortest program.',
   note='Trusted: vsched shims model Go channel/mutex/atomic semantics; vrewrite instruments syntactically; keys from a 3-key alphabet; background work runs only at client blocking points or explicit Quiesce (other interleavings are C05). State merge ignores cache/pool contents.',
   design='4/C01'),
}
CHECKS.update({
 'C03': dict(level='model_checking', technique='explicit-state breadth-first search over operation sequences with snapshot/iterator views held across writes, flushes and compactions; model copy per view',
   text='All sequences (to the stated depth) of writes, deletes, batches, CompactRange, Quiesce, Reopen, snapshot take/release (<=2 live) and iterator create/release (<=1 held) run on the real DB; after every transition each live snapshot and the held iterator are read back completely (point reads, forward and backward scan) and must equal the model copy taken at creation; the live DB must equal the current model.',
   note='Keys {a,b}; two snapshots + one iterator at most; background work at blocking points / explicit Quiesce only; trusted: scheduler shims, sorted-map model.', design='4/C03'),
 'C04': dict(level='fault_enumeration', technique='exhaustive crash-point x torn-image enumeration over a recorded storage-operation log of the real write/flush/compaction/manifest path, recovery by the real Open, subset-explanation oracle',
   text='For every history (all sequences to the depth + 6 long ones, several option sets) every storage-log position and every admissible durable image (tails lost/kept/cut at and inside write boundaries, +zeros/garbage) is recovered with leveldb.Open; the result must open, contain every sync-acknowledged batch and committed transaction, be explained by an in-order subset of issued batches, satisfy the LSM invariants and remain fully usable; thorough adds nested crashes inside recovery.',
   note='Crash model: metadata ops durable+ordered on return, content durable to last Sync; default non-strict options; histories on the default schedule.', design='4/C04'),
 'C05': dict(level='exploration', technique='stateless model checking: DFS over scheduler choice lists with iterative deviation bounding on the instrumented real code, happens-before state caching (cross-checked against the plain search on every run), porcupine linearizability oracle per execution',
   text='Closed drivers (2-5 clients, colliding keys, real background goroutines; among them victim-first drivers, readers sharing a one-block cache and the buffer pool, writers queued behind a transaction, CompactRange against a transaction commit) are executed under every schedule within the deviation bound (every departure from the deterministic default scheduler costs 1; quick bound 1-3, from two base schedules); most drivers run a second time with a scheduling point before every statement of the DB-level files of package leveldb and of table/reader.go (bound 1-2), which decides windows that contain no synchronisation operation; each execution yields a timestamped call/return history that must be linearizable w.r.t. a map-with-batches model (snapshot and iterator creation as single operations).',
   note='Bounded: schedules needing more deviations than the completed bound are not covered. SC memory assumed; timers fire at quiescence; scheduling points before every lock/atomic/channel/select/waitgroup op.', design='4/C05'),
 'C08': dict(level='fault_enumeration', technique='exhaustive single-fault (thorough: double-fault) position enumeration over the real DB on a fault-injecting storage under the deterministic scheduler, subset-explanation oracle before and after reopen',
   text='Per history one run per fault plan: k-th operation of each (kind,file type) x {fail once, fail 3x, half-written, performed-but-reported-failed, flipped read at 4 byte positions}; histories may close and reopen the DB under the plan (one or two journals to replay; fault pairs that leave two non-empty journals); contents while running and after clean close + fault-free reopen must be explained by all acknowledged writes plus a subset of failed ones; Open must succeed again once the injected failures stop, unless the fault itself tore durable bytes.',
   note='Faults begin after the initial Open; virtual-time settling; known findings D11 (manifest edit durable but reported failed) and F-C08-MF (a transient manifest misread made permanent by the tolerant default) are matched by signature.', design='4/C08'),

 'C09': dict(level='exploration', technique='fault-plan enumeration plus stateless DFS over schedules (deviation bounding, also at statement granularity, storage faults armed inside the window) on the instrumented real code with exact deadlock / virtual-time hang verdicts from the cooperative scheduler',
   text='(a) every single-fault plan of the C08 engine is followed by a probe suite (Put, Get, iterator, transactions, CompactRange, Close); every call must return. (b) clients racing Close, SetReadOnly, transactions and CompactRange are explored under all schedules within the deviation bound, also with one storage fault armed during the window (failing journal / manifest / table operations, two readers of a cold table whose open or read fails, SetReadOnly while a flush keeps failing). The scheduler owns every blocking primitive, so "never returns" is decided exactly: no goroutine enabled and no timer pending (deadlock) or the virtual clock passing one hour with a client call outstanding (hang).',
   note='Virtual time (timers fire at quiescence); bounded schedules; faults start after the initial Open.', design='4/C09'),

 'C10': dict(level='exploration', technique='stateless DFS over schedules (deviation bounding, weighted budget on the queue drivers, happens-before state caching) of N concurrent writers plus a lock competitor and storage faults on the instrumented real code; deadlock verdict, linearizability, journal read-back and group-result oracles',
   text='2-5 writers (merge on/off, one above the merge capacity so the hand-off path runs, writers queued behind a transaction so that the base schedule already has a full queue, a journal write/sync/creation fault in the middle of the protocol) plus Close / transaction / CompactRange / SetReadOnly are explored under every schedule within the bound (queue drivers also with weighted budget 4: preemption 2, wake-up choice 1). Callers reuse their buffers as soon as a call returns. Each execution must end with every writer answered (exact deadlock/hang verdict), a linearizable history, and a journal whose records have contiguous disjoint sequence ranges containing every acknowledged write exactly once, and writes sharing one journal record (one group) must have received the same result; evidence lists the merge-group shapes reached.',
   note='Bounded schedules; group membership is read from journal records (no source hook).', design='4/C10'),

 'C06': dict(level='model_checking', technique='explicit-state BFS over operation sequences with a scheduler step-hook monitor that validates every installed version by reading all live tables back from storage',
   text='Inside a breadth-first search over write/batch/transaction/compaction/reopen sequences (5 option sets, 5 comparers) a monitor fires at the instant the current version changes and checks: every live table exists with its recorded size, is strictly increasing, recorded smallest/largest keys equal first/last entries, levels>=1 ordered and pairwise disjoint in user keys, and per user key every shallower entry is newer than every deeper one. Versions after crash recovery are validated in C04, after Recover in C19.',
   note='Monitor reads tables with the real table.Reader; level-0 file order is recorded but not part of the verdict.', design='4/C06'),
 'C11': dict(level='model_checking', technique='explicit-state BFS over operation sequences including transaction bodies on the real DB, per-view reference models, storage-residue oracle',
   text='Sequences with OpenTransaction/Put/Delete/Write/Commit/Discard/Close-with-open-transaction and large-batch Write: after every transition the transaction view equals (state at open + its writes), DB/snapshot/fresh-snapshot views equal the state without them; after Commit all visible; after Discard/Close none, and once quiescent storage lists exactly live tables + journal(s) + manifest.',
   note='Crash around commit: C04; commit failures: C08/C09; concurrent readers: C05.', design='4/C11'),
 'C20': dict(level='model_checking', technique='explicit-state BFS over operation sequences with an adversarial caller that scribbles over every argument and result buffer and over the spare capacity of exposed iterator slices, on the pool/cache/compression/location option grid',
   text='Every argument buffer is overwritten right after its call returns and every Get result after it was compared; full read-back after every step of every path against a model holding private copies, for 9 option sets covering buffer pool on/off, block cache on/off/tiny, snappy, data in tables vs buffers, DB/Snapshot/Transaction/iterator handles.',
   note='Aliasing is detected through its observable effect (a later wrong answer or a modified argument); state merge ignores cache contents but checks run along every explored path.', design='4/C20'),

 'C12': dict(level='fault_enumeration', technique='exhaustive finite-domain enumeration on the real journal Writer/Reader: all record-length tuples x flush patterns, every truncation offset, every single-byte alteration and every run of zero bytes',
   text='Round trip of every tuple (<=3, thorough <=4) of 15 block-boundary-hitting record lengths under every flush pattern, strict and tolerant; for selected streams every truncation offset, every one-byte alteration (3 patterns) and every run of zero bytes (2/7/8/100/to the block end) at every offset (<=2 blocks) or around every chunk/block boundary (longer); the reader must never panic, invent or reorder records, tolerant mode may lose only records touching the damaged block, strict mode must stop with an error (except at an exact record boundary).',
   note='Known finding: strict mode returns clean EOF for a cut inside a first-chunk header.', design='4/C12'),

 'C13': dict(level='model_checking', technique='exhaustive finite-domain enumeration on the real table Writer/Reader: every subset of a key universe x option grid, all movement sequences to a depth on every range against a cursor model, every single-byte alteration of the small tables',
   text='Every subset (1024) of a 10-key prefix-sharing universe is written and read back per grid point (block size, restart interval, compression, bloom, filter base, cache/pool, raw and internal keys): Find/FindKey/Get/OffsetOf for 25 probes, and for 49 ranges every movement sequence of the stated depth over First/Last/Next/Prev/Seek against a sorted-list cursor, on tables with >= 6 entries also every sequence three moves longer over First/Last/Next/Prev/one Seek; then every byte before the footer of the smallest tables is altered (3 patterns) and the battery must return only original pairs or corruption errors, never panic.',
   note='Finite universe; depth-bounded movement sequences (2 quick / 3 thorough); footer not altered.', design='4/C13'),
 'C15': dict(level='model_checking', technique='exhaustive evaluation of the order and shortening laws over a finite universe of internal keys for five comparers, plus index routing through one-entry-per-block tables',
   text='All 320 internal keys (user keys over {0x00,a,0xff} up to length 3, seq {0,1,2,2^56-1}, both kinds) x 5 comparers: antisymmetry, identity, user-key-major/newest-first, probe placement on all pairs; transitivity on all triples; a<=Separator(a,b)<b and Successor(b)>=b on all ordered pairs for internal and user comparers; every stored key found in every table of <=4 one-entry blocks over a 24-key sub-universe.',
   note='Internal comparer and key constructor reached through an overlay-added export; finite universe.', design='4/C15'),
 'C16': dict(level='model_checking', technique='exhaustive enumeration: bloom filters for bits 1..64 over all subsets of a key universe, filter blocks over all table subsets x filter bases, and BFS over DB programs under 18 filter settings (bloom and an exact-set policy with its own name, with/without AltFilters) against the sorted-map model',
   text='No added key is ever reported absent (all 4096 subsets of a 12-key universe x 64 bits-per-key; generated large sets in thorough); tables with many/empty filter partitions find every stored key; every DB operation sequence to the depth returns the model answers with no filter, bloom 1/10/64, an exact-set policy (no false positives, own name), and with tables written under one policy and reopened with no filter / no filter + AltFilters / another policy with and without AltFilters.',
   note='Key sets: all subsets of a finite universe plus a finite generated family.', design='4/C16'),

 'C02': dict(level='model_checking', technique='explicit-state BFS over DB operation sequences; in every reached state exhaustive enumeration of iterator movement sequences on every range and view against a cursor model; same enumeration on merged/indexed component iterators',
   text='For every state reached by sequences of puts, deletes, batches, compactions, snapshots and transactions (layout-forcing options, bytewise and shortlex), for the DB, each live snapshot and the open transaction, and for every range with bounds in {nil} plus 7 probes: every sequence of First/Last/Next/Prev/Seek(p) up to the stated depth runs on a fresh iterator and is compared move by move with a cursor over the sorted live pairs. Component level: NewMergedIterator over every assignment of <=5 keys to 3 children, NewIndexedIterator over every split into runs.',
   note='Movement depth 2-4 (quick) / 3-4 (thorough); table and memdb iterators are enumerated in C13 / C14.', design='4/C02'),

 'C14': dict(level='model_checking', technique='exhaustive operation-sequence enumeration on the real memdb against a sorted-map model, plus stateless DFS over schedules at statement granularity (vrewrite -stmt) of one writer against readers',
   text='Every sequence to the depth over Put (3 keys x 4 values) / Delete / Reset; after each Len, Size, Get/Contains/Find on probes and, at the deepest levels, every movement sequence on 27 ranges; iterators positioned before the last operation of every sequence (First/Last/Seek) and moved after it must not panic, stay monotone and yield only pairs stored at some time. Concurrent: scheduling points before every statement of package memdb; a writer (overwrite changing the value length, delete) against 1-2 readers under every schedule within the deviation bound; readers see strictly monotone keys and only pairs stored at some time.',
   note='Concurrent part deviation-bounded (3 quick / 5 thorough on single-reader drivers).', design='4/C14'),

 'C17': dict(level='exploration', technique='exhaustive enumeration of all operation sequences to a depth on the real cache.Cache + LRU from one goroutine, plus stateless DFS over schedules (deviation bounding; atomics are scheduling points), both with instrumented values',
   text='Sequential: every sequence of 5 (thorough 6) operations over a 20-operation alphabet on capacities 1 and 2; after every step the charge retained without any client handle - recomputed from the instrumented values, not read from the cache - fits the capacity, Evict*/Delete of an unpinned node finalise it at once, callbacks and finalisers run exactly once. Concurrent: 2-3 goroutines issue Get/Release, Get/hold, Delete with callback, Evict, EvictNS, EvictAll, SetCapacity, Close (forced or not) on colliding keys, also across a map grow (Delete of a pinned entry against the resize, one handle released by two goroutines); under every schedule within the bound, the small drivers a second time with a scheduling point before every statement of package cache: constructors never run while a value of the key is live, handles never carry a finalised value, values are finalised exactly once and only with no outstanding handle (unless force-closed), delete callbacks run once and never with a handle out, retained charge fits the capacity when no handle is out. Deadlocks inside the cache are counted but belong to C09.',
   note='Deviation bound 3-5 quick / 5-8 thorough.', design='4/C17'),
 'C19': dict(level='fault_enumeration', technique='explicit-state BFS over DB operation sequences; per settled closed state enumeration of manifest-loss/truncation/garbage variants and single-byte table damage, Recover by the real code, model comparison + LSM invariants',
   text='Every state to the depth: manifest and CURRENT removed, CURRENT removed, manifest cut at every record boundary -1/0/+1 and inside headers, manifest garbage -> Recover must give exactly the model contents, a well-formed LSM tree, a usable DB that reopens with Open. With the manifest gone, one byte per 16-byte stretch of each table data area (and all first blocks together) altered -> Recover succeeds, keys outside the damaged table read exactly as the model, others only values once written.',
   note='Settled cleanly closed states; per-block clause checked at table granularity.', design='4/C19'),

 'C07': dict(level='model_checking', technique='explicit-state BFS over DB operation sequences with held views plus explicit-state BFS over event sequences on the real version-reference loop (in-package driver), schedule search and a steady-state run',
   text='(a) sequences with held iterators/snapshots/discarded transactions/reopen: held views re-read completely after every step, no file removed while open, storage listing == live files whenever no view is held; (b) BFS over {pin, unpin, commit, failed commit, 5 virtual minutes} on the real session reference loop, also 254..300 commits behind a pinned version: tables of current/pinned versions always exist, after all pins are released storage == current version; (c) iterator scan racing flush/compaction under bounded schedules; (d) repeated overwrite+compact does not accumulate entries.',
   note='(b) uses synthetic one-table records through an overlay-added driver; depth 6 (4 behind long prefixes) quick, 8/6 thorough.', design='4/C07'),
 'C18': dict(level='model_checking', technique='explicit-state BFS over DB operation sequences; in every state exhaustive method battery after Close / SetReadOnly / read-only reopen on a recording storage in audit mode; ownership script enumeration incl. a real directory with leftovers opened read-only through the file storage; bounded schedule search of calls racing Close',
   text='In every reached state: Close then 30 method calls on DB, live snapshots and the open transaction plus a second Close -> errors only, no storage operation after Close returned, lock released; read-only reopen in audit mode -> contents equal the model incl. journal-only data, writes ErrReadOnly, zero mutating storage operations; a real directory in five leftover states (clean, stale or pending CURRENT.<n>, CURRENT.bak, stray temporary file) opened read-only through storage.OpenFile is served, refuses writes and is byte-identical afterwards; SetReadOnly -> writes ErrReadOnly, reads equal the model, nothing mutated after settling; all <=4-step Open/Close scripts on three storages; single calls racing Close under all schedules within the bound.',
   note='Single process (no cross-process file lock); iterators held across Close are outside the contract.', design='4/C18'),
})
NA = {}

# Additions of rounds 8-9 (appended to the level text of the check).
EXTRA = {
 'C15': ' The pair and separator laws also run over a second universe of user keys over {0x00,0x01,a,b,0xfe,0xff} (neighbouring byte values and the 0xff ceiling), length <= 3.',
 'C01': ' Option sets added later: throttle (level-0 slowdown/pause triggers) and tightcomp (every compaction size limit at its minimum). Point reads are made twice, with and without DontFillCache.',
 'C02': ' Component level also covers merged and indexed iterators over a child whose source fails at its k-th positioning call: the parent stops with that error or answers like the model, never wrongly with Error()==nil. Walks of depth 4 also start from states with eight keys in one-entry blocks (one level-0 table, a deeper table, two level-0 tables, a transaction\'s table).',
 'C03': ' One of the option sets has a bloom filter per 16-byte block (versions of one key straddle filter ranges).',
 'C04': ' Histories include file numbers leaked by a discarded transaction before a rotation; post-recovery writes use values distinct from the history and contents are checked after every reopen. Two concurrent drivers recover the image after EVERY storage operation of a window that contains compactions, and a synced write made after recovery must survive a plain reopen. Histories include multi-entry batches whose journal record spans blocks (a cut in a later chunk must not replay the leading entries).',
 'C05': ' Drivers are searched in two phases (all of them up to bound 1 first, then deeper), so a short budget cuts depth and not breadth. Added: a Write leading a merging group after the batch pool was used, throttled writers, a reader that does not fill the caches, and views put together while a write buffer holding EARLIER writes is rotated (wide option set; second base schedule at the full bound).',
 'C06': ' Also in the throttle and tightcomp option sets. Every configuration is searched to depth 4 in the quick tier.',
 'C07': ' Concurrent drivers can ask for the residue check after 120 virtual seconds of settling: writers racing CompactRange, with a commit that fails once (manifest sync fault) and with removed tables handing their numbers back.',
 'C08': ' Read-back also goes through an iterator (scan, Seek, reversal: no silent skipping); a flipped byte in a TABLE read is judged with the full oracle; the residue oracle also applies after journal create/write/sync faults (known finding F-C07-JR); batches handed to Write are re-checked after every later operation; histories in the throttle option set (writers and commits waiting for a failing table compaction).',
 'C09': ' Added: throttle histories and drivers, the evict option set, rotation with a failed journal creation next to a table compaction, and the session file-number allocator (alloc / reuse / mark) from several goroutines under all bounded interleavings (everybody returns, numbers in use distinct and below the next).',
 'C10': ' "Visible together": every snapshot taken during the window must equal the state after a whole number of journal records (drivers with a snapshot taken while a multi-batch group is applied); per-write NoWriteMerge.',
 'C12': ' Every stream is consumed twice, through Read and through ReadByte; record contents include all-zero and one-repeated-byte records (what a reader buffer holds beyond the data), and nothing may be yielded that the cut stream no longer holds in full.',
 'C13': ' The key universe ends with a 0xff-led key (index key from Successor); the grid includes readers behind a cache that keeps nothing once a handle is released and a cache without replacement policy.',
 'C14': ' A released iterator handle is released a second time while later iterators are live. Movement sequences of depth 3 on every range in the quick tier.',
 'C16': ' Every byte of the filter block (and its trailer) is damaged in three patterns under strict and non-strict readers: answers must stay exact.',
 'C17': ' Operations include failing constructors and get-only lookups racing on one key, followed by a successful fill.',
 'C18': ' Every crash image (after each mutating storage operation, tails lost/kept) of a few histories is opened read-only in audit mode and, on a copy, normally: the read-only open succeeds where the normal one does, serves the same contents and performs no mutating storage operation. Sequence search to depth 4 (quick) / 5 (thorough).',
 'C19': ' Damage enumeration also on multi-block tables with a bloom filter; point reads are compared with the scan right after Recover; every table read of Recover fails once (error reported, or the fault-free result, also after a retry).',
 'C20': ' Seeks refill one key buffer in place between consecutive calls; batches handed to Write are kept by the caller and re-checked after every later operation.',
}

def main():
    for k, v in EXTRA.items():
        if k in CHECKS:
            CHECKS[k]['text'] = CHECKS[k]['text'].rstrip() + v

    checks = []
    for pid in props:
        if pid in CHECKS:
            c = CHECKS[pid]
            checks.append({
                'property_id': pid,
                'quick_cmd': f'scripts/check.sh {pid} quick',
                'thorough_cmd': f'scripts/check.sh {pid} thorough',
                'evidence_file': f'evidence/{pid}.json',
                'replay_cmd_template': 'scripts/check.sh replay {path}',
                'engine': 'verif-engine',
                'level_claimed': {'category': c['level'], 'text': c['text'], 'design_ref': c['design']},
                'level_note': c['note'],
                'technique': c['technique'],
            })
    na = [{'property_id': p, 'reason': NA.get(p, 'check not built yet in this revision (work in progress; planned per DESIGN.md section 4)')}
          for p in props if p not in CHECKS]
    m = {
        'version': 1,
        'setup_cmd': 'scripts/setup.sh',
        'hooks': {
            'guard': 'verif',
            'enable': 'scripts/build.sh: vrewrite instruments the current /repo tree into a scratch dir and go build -overlay ... -tags verif substitutes it; observation hooks from /verif/hooks are added to package leveldb through the same overlay; /repo carries no hook commits',
            'baseline_off_cmd': 'cd /repo && GOFLAGS=-mod=mod GOPROXY=off GOSUMDB=off go test -vet=off -count=1 -timeout 25m ./...',
            'source_commits': [],
            'add_only': True,
        },
        'engines': [
            {'name': 'verif-engine', 'path': 'engine', 'serves_properties': sorted(CHECKS), 'kind_free_text': 'hand-written stateless model checker for Go: syntactic instrumenter (vrewrite) + cooperative scheduler owning goroutines/channels/select/locks/atomics/timers (vsched) + recording/faulting/crash-image storage (vstor) + BFS/DFS explorers over worker subprocesses'},
        ],
        'checks': checks,
        'not_applicable': na,
        'notes': 'Exit codes: 0 held (KNOWN-FINDING lines possible), 1 violation, 2 machinery/build error (never with a VIOLATION line). VERIF_BUDGET_S caps wall time per check; a capped run reports exhaustive:false.',
    }
    json.dump(m, open(os.path.join(ROOT, 'MANIFEST.json'), 'w'), indent=1)
    print('wrote MANIFEST.json with', len(checks), 'checks,', len(na), 'not_applicable')

if __name__ == '__main__':
    main()
