package checks

import (
	"encoding/json"
	"fmt"
	"os"
	"sort"
	"strings"
	"verif/vsync"

	"github.com/syndtr/goleveldb/leveldb"
	"github.com/syndtr/goleveldb/leveldb/storage"
	"github.com/syndtr/goleveldb/leveldb/util"
	"verif/explore"
	"verif/harness"
	"verif/model"
	"verif/vsched"
	"verif/vstor"
)

// C08 / C09 share the fault-plan engine: a history runs once without faults to learn how many
// operations of each (kind, file type) it performs; then it is re-run once per fault plan —
// the k-th such operation fails (once, three times in a row, half-written, or "performed but
// reported as failed"). After the faulty run the DB is used further, settled (virtual time),
// read back, closed, reopened without faults and read back again.

type faultSpec struct {
	Kind  int    `json:"kind"`
	Type  int    `json:"type"`
	Nth   int    `json:"nth"`
	Count int    `json:"count"`
	Mode  int    `json:"mode"`
	Pos   int    `json:"pos,omitempty"` // flipped reads: which byte of the data returned
	Name  string `json:"name"`
}

type faultTask struct {
	Cfg    string      `json:"cfg"`
	Ops    []string    `json:"ops"`
	Faults []faultSpec `json:"faults"`          // empty: baseline (returns the position census)
	Probe  bool        `json:"probe"`           // C09: run the liveness probe suite after the history
	Where  bool        `json:"where,omitempty"` // record call sites of blocked goroutines (diagnostic re-run)
}

type faultResult struct {
	Census   map[string]int `json:"census,omitempty"` // "kind/type" -> count (baseline)
	Viol     []string       `json:"viol,omitempty"`   // C08 violations (wrong answer / lost ack)
	Hang     []string       `json:"hang,omitempty"`   // C09 violations (call never returned)
	Blocked  []string       `json:"blocked,omitempty"`
	Fired    int            `json:"fired"`
	Surfaced int            `json:"surfaced"` // client-visible errors
	Errs     []string       `json:"errs,omitempty"`
	Reopen   string         `json:"reopen,omitempty"`
	Phase    string         `json:"phase,omitempty"`
}

var faultKeys = []string{"a", "b", "c"}

// readBack returns per-key observations: value, notFound marker, or "" with unknown=true.
func readBack(db *leveldb.DB) (obs map[string]string, unknown map[string]bool, errs []string) {
	obs = map[string]string{}
	unknown = map[string]bool{}
	for _, k := range faultKeys {
		v, err := db.Get([]byte(k), nil)
		switch {
		case err == nil:
			obs[k] = string(v)
		case err == leveldb.ErrNotFound:
		default:
			unknown[k] = true
			errs = append(errs, fmt.Sprintf("Get(%q): %v", k, err))
		}
	}
	return
}

// readBackIter reads the same keys through one iterator (scan, then Seek to every key with a
// Prev/Next reversal): whenever the iterator reports no error, what it showed agrees with the
// point reads on every key those could read. An iterator may fail under a fault; it may not
// skip pairs silently. Returns violations and the errors met.
func readBackIter(db *leveldb.DB, obs map[string]string, unknown map[string]bool) (viol []string, errs []string) {
	it := db.NewIterator(nil, nil)
	defer it.Release()
	type kv struct{ k, v string }
	var scan []kv
	for it.Next() {
		scan = append(scan, kv{string(it.Key()), string(it.Value())})
	}
	type sk struct {
		ok        bool
		k, v      string
		back, fwd string
	}
	seeks := map[string]sk{}
	for _, k := range faultKeys {
		var r sk
		r.ok = it.Seek([]byte(k))
		if r.ok {
			r.k, r.v = string(it.Key()), string(it.Value())
			if it.Prev() {
				r.back = string(it.Key())
			}
			if it.Next() {
				r.fwd = string(it.Key())
			}
		}
		seeks[k] = r
	}
	if err := it.Error(); err != nil {
		return nil, []string{"iterator: " + err.Error()}
	}
	seen := map[string]string{}
	for i, p := range scan {
		if i > 0 && scan[i-1].k >= p.k {
			viol = append(viol, fmt.Sprintf("iterator scan out of order: %q then %q", scan[i-1].k, p.k))
		}
		seen[p.k] = p.v
	}
	for _, k := range faultKeys {
		if unknown[k] {
			continue
		}
		gv, gok := obs[k]
		sv, sok := seen[k]
		if gok != sok || gv != sv {
			viol = append(viol, fmt.Sprintf("iterator (no error reported) shows %q=%q present=%v, Get says %q present=%v", k, sv, sok, gv, gok))
		}
		// Seek(k): the first scanned key >= k
		want, wok := "", false
		for _, p := range scan {
			if p.k >= k {
				want, wok = p.k, true
				break
			}
		}
		r := seeks[k]
		if r.ok != wok || r.k != want {
			viol = append(viol, fmt.Sprintf("iterator (no error reported) Seek(%q) = %q ok=%v, the scan's first key >= it is %q ok=%v", k, r.k, r.ok, want, wok))
		} else if r.ok && r.fwd != r.k {
			viol = append(viol, fmt.Sprintf("iterator (no error reported) Seek(%q), Prev, Next went %q -> %q -> %q", k, r.k, r.back, r.fwd))
		}
	}
	return
}

// explainPartial: is there S, acked ⊆ S ⊆ issued, whose in-order application agrees with obs
// on every key that is not unknown?
func explainPartial(issued []model.Batch, acked []bool, obs map[string]string, unknown map[string]bool) bool {
	var optional []int
	for i := range issued {
		if !acked[i] {
			optional = append(optional, i)
		}
	}
	if len(optional) > 16 {
		optional = optional[len(optional)-16:]
	}
	in := make([]bool, len(issued))
	for mask := 0; mask < 1<<len(optional); mask++ {
		for i := range in {
			in[i] = acked[i]
		}
		for j, i := range optional {
			if mask&(1<<j) != 0 {
				in[i] = true
			}
		}
		m := map[string]string{}
		for i, b := range issued {
			if in[i] {
				for _, o := range b {
					if o.Del {
						delete(m, o.K)
					} else {
						m[o.K] = o.V
					}
				}
			}
		}
		ok := true
		for _, k := range faultKeys {
			if unknown[k] {
				continue
			}
			v, has := m[k]
			w, hasO := obs[k]
			if has != hasO || v != w {
				ok = false
				break
			}
		}
		if ok {
			return true
		}
	}
	return false
}

// onlyWritten: every observed value was written to that key at some time.
func onlyWritten(issued []model.Batch, acked []bool, obs map[string]string, unknown map[string]bool) bool {
	for k, v := range obs {
		found := false
		for _, b := range issued {
			for _, o := range b {
				if !o.Del && o.K == k && o.V == v {
					found = true
				}
			}
		}
		if !found {
			return false
		}
	}
	return true
}

func runFault(t *faultTask) *faultResult {
	res := &faultResult{}
	var w *harness.World
	phase := "open"
	vsched.WantWhere = t.Where
	defer func() { vsched.WantWhere = false }()
	if os.Getenv("VERIF_DEBUG") != "" {
		vsync.DebugPool = true
		defer func() {
			for _, d := range vsync.DoublePuts {
				fmt.Fprintln(os.Stderr, "DOUBLE-PUT", d)
			}
		}()
	}
	r := vsched.Run(vsched.Options{}, func() {
		w = harness.NewWorld(harness.Config{Name: t.Cfg})
		w.TolerateErrors = true
		if err := w.Open(); err != nil {
			res.Viol = append(res.Viol, "initial Open failed: "+err.Error())
			return
		}
		base := len(w.Stor.Ops)
		for _, f := range t.Faults {
			w.Stor.Rules = append(w.Stor.Rules, &vstor.Rule{Kind: vstor.Kind(f.Kind), Types: storage.FileType(f.Type), Nth: f.Nth, Count: f.Count, Mode: vstor.Mode(f.Mode), FlipPos: f.Pos})
		}
		phase = "history"
		dead := false
		for _, op := range t.Ops {
			if op == "re" {
				// reopen under faults: retry a few times, the fault plan is finite
				w.ReleaseViews()
				if w.DB != nil {
					w.DB.Close()
					w.DB = nil
				}
				var err error
				for try := 0; try < 6; try++ {
					if err = w.Open(); err == nil {
						break
					}
					w.Errs = append(w.Errs, "Open: "+err.Error())
				}
				if err != nil {
					dead = true
					res.Reopen = "reopen inside history kept failing: " + err.Error()
					// the plan injects at most 3 failures and Open was tried 6 times: the DB stays
					// inaccessible although the failures stopped (a half-written record excepted:
					// durable bytes were damaged by the fault itself)
					partial := false
					for _, f := range t.Faults {
						if vstor.Mode(f.Mode) == vstor.ModePartial {
							partial = true
						}
					}
					if !partial && len(t.Faults) > 0 {
						res.Viol = append(res.Viol, res.Reopen)
					}
					break
				}
				continue
			}
			if len(w.Enabled([]string{op})) == 0 {
				continue
			}
			w.Apply(op)
			if w.Failed() {
				res.Viol = append(res.Viol, w.Viol...)
				return
			}
		}
		census := func() {
			if len(t.Faults) != 0 {
				return
			}
			// census of failable operations performed by the history (after the initial Open), by
			// the settling and by the first read-back: a fault may also hit the reads that answer
			// the client (an error there must surface as an error, not as "not found")
			res.Census = map[string]int{}
			for _, o := range w.Stor.Ops[base:] {
				switch o.Kind {
				case vstor.KLock, vstor.KUnlock, vstor.KCloseReader, vstor.KGetMeta:
					continue
				}
				res.Census[fmt.Sprintf("%d/%d", o.Kind, o.Fd.Type)]++
			}
		}
		if dead {
			census()
			return
		}
		phase = "settle"
		if w.Tr != nil {
			w.Tr.Discard()
			w.Tr, w.TrM = nil, nil
		}
		vsched.Sleep(120e9)
		phase = "readback"
		flip := false
		for _, f := range t.Faults {
			// a flipped byte in a table read is always detected (every table block is checksummed and
			// the default options verify it; compactions are strict): nothing may be dropped then. In
			// a journal or manifest read it may legitimately cost data (non-strict replay).
			if vstor.Mode(f.Mode) == vstor.ModeFlip && storage.FileType(f.Type) != storage.TypeTable {
				flip = true
			}
		}
		explain := explainPartial
		if flip {
			// damaged bytes were served by the storage: acknowledged data may legitimately be
			// dropped (non-strict journal/manifest) — only "nothing invented" is required
			explain = onlyWritten
		}
		// batches passed to Write (failed or not) are still what the caller put into them
		w.CheckHeldBatches()
		if w.Failed() {
			res.Viol = append(res.Viol, w.Viol...)
			return
		}
		obs, unk, errs := readBack(w.DB)
		{
			// (with a flipped byte served by the storage only the point reads are judged; the
			// iterator still runs so that the operation count matches the fault-free baseline)
			iv, ierrs := readBackIter(w.DB, obs, unk)
			errs = append(errs, ierrs...)
			if len(iv) > 0 && !flip {
				census()
				res.Viol = append(res.Viol, "while running: "+strings.Join(iv, "; "))
				return
			}
		}
		census()
		w.Errs = append(w.Errs, errs...)
		if !explain(w.Issued, w.Acked, obs, unk) {
			res.Viol = append(res.Viol, fmt.Sprintf("while running: contents %v (unknown %v) not explained by the acknowledged writes plus a subset of the failed ones; issued=%v acked=%v", obs, unk, w.Issued, w.Acked))
			return
		}
		// C07 under faults: a table whose creation, write or sync failed belongs to nobody; once
		// the background work has settled it must be gone again, not wait for the next Open
		tableFaultOnly := len(t.Faults) > 0
		for _, f := range t.Faults {
			k := vstor.Kind(f.Kind)
			if storage.FileType(f.Type) == storage.TypeJournal && (vstor.Mode(f.Mode) == vstor.ModeFail || vstor.Mode(f.Mode) == vstor.ModeAfter) && (k == vstor.KCreate || k == vstor.KWrite || k == vstor.KSync) {
				// the same after a failed journal creation, write or sync: the write fails, later ones
				// work again, and nothing is left behind (manifest faults are different: a failed
				// manifest append poisons the manifest writer, commits are retried for ever and the
				// background work never settles)
				continue
			}
			if storage.FileType(f.Type) != storage.TypeTable || vstor.Mode(f.Mode) != vstor.ModeFail || (k != vstor.KCreate && k != vstor.KWrite && k != vstor.KSync) {
				tableFaultOnly = false
			}
		}
		if tableFaultOnly && !t.Probe {
			phase = "residue"
			w.CheckResidue("after a failed table or journal creation/write/sync and 120 virtual seconds of settling")
			if w.Failed() {
				res.Viol = append(res.Viol, w.Viol...)
				return
			}
		}
		if t.Probe {
			phase = "probe"
			probeSuite(w, res)
		}
		phase = "close"
		w.ReleaseViews()
		w.DB.Close()
		w.DB = nil
		phase = "reopen"
		w.Stor.Rules = nil
		if err := w.Open(); err != nil {
			res.Reopen = "reopen after clean close failed: " + err.Error()
			// damage caused by a half-written record is the fault's own doing
			partial := false
			for _, f := range t.Faults {
				if vstor.Mode(f.Mode) == vstor.ModePartial {
					partial = true
				}
			}
			if !partial {
				res.Viol = append(res.Viol, res.Reopen)
			}
			return
		}
		phase = "readback2"
		obs, unk, errs = readBack(w.DB)
		w.Errs = append(w.Errs, errs...)
		if len(unk) > 0 {
			res.Viol = append(res.Viol, fmt.Sprintf("after reopen without faults reads still fail: %v", errs))
			return
		}
		if iv, ierrs := readBackIter(w.DB, obs, unk); len(iv) > 0 || len(ierrs) > 0 {
			res.Viol = append(res.Viol, fmt.Sprintf("after reopen without faults: %v %v", iv, ierrs))
			return
		}
		if !explain(w.Issued, w.Acked, obs, unk) {
			res.Viol = append(res.Viol, fmt.Sprintf("after reopen: contents %v not explained by the acknowledged writes plus a subset of the failed ones; issued=%v acked=%v", obs, w.Issued, w.Acked))
			return
		}
		if !t.Probe {
			// "and in any case after close and reopen": whatever failed before, the reopened DB
			// holds nothing but its live files once it has settled
			phase = "residue2"
			w.CheckResidue("after clean close and fault-free reopen")
			if w.Failed() {
				res.Viol = append(res.Viol, w.Viol...)
				return
			}
		}
		phase = "close2"
		w.DB.Close()
		w.DB = nil
	})
	res.Phase = phase
	if w != nil {
		res.Fired = w.Stor.Faults
		res.Surfaced = len(w.Errs)
		if len(w.Errs) > 6 {
			res.Errs = w.Errs[:6]
		} else {
			res.Errs = w.Errs
		}
	}
	switch r.Verdict {
	case vsched.Completed:
	case vsched.Deadlock, vsched.Hang, vsched.Livelock:
		res.Hang = append(res.Hang, fmt.Sprintf("%s during phase %q", r.Verdict, phase))
		res.Blocked = r.Blocked
	default:
		res.Viol = append(res.Viol, fmt.Sprintf("execution ended with %s in phase %q: %v", r.Verdict, phase, r.PanicValue))
		res.Blocked = append(r.Blocked, r.PanicStack)
	}
	return res
}

// probeSuite (C09): after the faults, each call must return (any result).
func probeSuite(w *harness.World, res *faultResult) {
	db := w.DB
	db.Put([]byte("p"), []byte("1"), nil)
	db.Get([]byte("p"), nil)
	it := db.NewIterator(nil, nil)
	it.Next()
	it.Release()
	if tr, err := db.OpenTransaction(); err == nil {
		tr.Put([]byte("p"), []byte("2"), nil)
		if err := tr.Commit(); err != nil {
			tr.Discard()
		}
	}
	if tr, err := db.OpenTransaction(); err == nil {
		tr.Discard()
	}
	db.CompactRange(util.Range{})
	db.Delete([]byte("p"), nil)
}

var c08Alpha = []string{"Sput:a", "w:+a,-b", "big", "cr", "q", "trx:+b,+c"}

func faultPlans(census map[string]int, quick bool) []faultSpec {
	var keys []string
	for k := range census {
		keys = append(keys, k)
	}
	sort.Strings(keys)
	var out []faultSpec
	for _, k := range keys {
		var kind, typ int
		fmt.Sscanf(k, "%d/%d", &kind, &typ)
		n := census[k]
		for nth := 1; nth <= n; nth++ {
			modes := [][3]int{{int(vstor.ModeFail), 1}, {int(vstor.ModeFail), 3}}
			switch vstor.Kind(kind) {
			case vstor.KWrite:
				modes = append(modes, [3]int{int(vstor.ModePartial), 1}, [3]int{int(vstor.ModeAfter), 1})
			case vstor.KSync, vstor.KRemove, vstor.KSetMeta:
				modes = append(modes, [3]int{int(vstor.ModeAfter), 1})
			case vstor.KRead:
				// a damaged byte in the middle, at the very end (the last value of a journal), just
				// before it, and in the first quarter of what the read returned
				modes = append(modes, [3]int{int(vstor.ModeFlip), 1, 0}, [3]int{int(vstor.ModeFlip), 1, 1}, [3]int{int(vstor.ModeFlip), 1, 2}, [3]int{int(vstor.ModeFlip), 1, 3})
			}
			if quick && nth > 6 && nth < n-2 && nth%3 != 0 {
				// quick: the first six, the last three and every third position in between
				continue
			}
			for _, m := range modes {
				name := fmt.Sprintf("%s/%s#%d x%d mode%d", vstor.Kind(kind), storage.FileType(typ), nth, m[1], m[0])
				if m[2] != 0 {
					name += fmt.Sprintf(" pos%d", m[2])
				}
				out = append(out, faultSpec{Kind: kind, Type: typ, Nth: nth, Count: m[1], Mode: m[0], Pos: m[2], Name: name})
			}
		}
	}
	return out
}

var wherePools = map[string]*explore.Pool{}

// wherePool is a single-worker pool used for diagnostic re-runs from inside result callbacks.
func wherePool(id string) *explore.Pool {
	if p := wherePools[id]; p != nil {
		return p
	}
	p := explore.NewPool(1, "worker", id)
	wherePools[id] = p
	return p
}

// stripLines removes ":<line>" suffixes so signatures survive unrelated edits.
func stripLines(s string) string {
	var b strings.Builder
	for i := 0; i < len(s); i++ {
		if s[i] == ':' {
			j := i + 1
			for j < len(s) && s[j] >= '0' && s[j] <= '9' {
				j++
			}
			if j > i+1 {
				i = j - 1
				continue
			}
		}
		b.WriteByte(s[i])
	}
	return b.String()
}

func faultWorker(task []byte) []byte {
	var probe struct {
		Checks string `json:"checks"`
	}
	if json.Unmarshal(task, &probe) == nil && probe.Checks != "" {
		return seqWorker(nil)(task) // layout-feature search
	}
	var t faultTask
	if err := json.Unmarshal(task, &t); err != nil {
		return explore.MustJSON(faultResult{Viol: []string{"bad task"}})
	}
	return explore.MustJSON(runFault(&t))
}

// runFaultCheck enumerates histories x fault plans. which = "C08" (answers) or "C09" (liveness).
type cfgHist struct {
	cfg string
	ops []string
}

var richSuffixAlpha = []string{"w:-a,-c", "del:a", "put:b", "cr", "q"}
var richAlpha = []string{"put:a", "put:b", "put:c", "del:a", "del:c", "w:-a,-c", "q", "cr"}

// richHistories: shortest histories reaching deep / tombstone-rich / multi-table layouts in
// the "mixed" configuration, each continued by a full compaction or a quiesce.
func richHistories(c *explore.Ctx, id string, depth, max int) []cfgHist {
	pool := explore.NewPool(0, "worker", id)
	defer pool.Close()
	var out []cfgHist
	for _, cfg := range []string{"mixed/bytewise", "deep/bytewise"} {
		hs, feats := findRichHistories(c, pool, cfg, richAlpha, depth, max)
		c.Coverage["layout_features_"+cfg] = feats
		for _, h := range hs {
			// continue each rich state with every short suffix that deletes, overwrites and
			// compacts (a compaction over tombstones is where retry/revert logic matters)
			for _, sfx := range genSeqs(richSuffixAlpha, 2) {
				if len(sfx) == 0 {
					continue
				}
				ops := append(append([]string{}, h...), sfx...)
				out = append(out, cfgHist{cfg, append(ops, "q")})
			}
		}
	}
	c.Coverage["rich_histories"] = len(out)
	if len(out) > 0 {
		c.Sample(map[string]any{"rich_history": out[0].ops, "cfg": out[0].cfg})
	}
	return out
}

func runFaultCheck(c *explore.Ctx, id string, cfgs []string, histories [][]string, quick bool, double bool, extra ...cfgHist) {
	pool := explore.NewPool(0, "worker", id)
	defer pool.Close()
	type hist = cfgHist
	var hs []hist
	hs = append(hs, extra...)
	for _, cfg := range cfgs {
		if !cfgSelected(cfg) {
			continue
		}
		for _, h := range histories {
			hs = append(hs, hist{cfg, h})
		}
	}
	// baselines
	var raw [][]byte
	for _, h := range hs {
		raw = append(raw, explore.MustJSON(faultTask{Cfg: h.cfg, Ops: h.ops, Probe: id == "C09"}))
	}
	census := make([]map[string]int, len(hs))
	pool.Map(raw, func(i int, b []byte, err error) {
		var r faultResult
		if err == nil {
			json.Unmarshal(b, &r)
		}
		if err != nil || len(r.Viol) > 0 || len(r.Hang) > 0 {
			c.Report(&explore.Violation{Property: id, Sig: map[string]string{"check": "fault-baseline", "config": hs[i].cfg, "ops": strings.Join(hs[i].ops, " "), "effect": fmt.Sprint(r.Viol, r.Hang, err)}, Detail: map[string]any{"task": faultTask{Cfg: hs[i].cfg, Ops: hs[i].ops}, "result": r}})
			return
		}
		census[i] = r.Census
	})
	var tasks []faultTask
	for i, h := range hs {
		if census[i] == nil {
			continue
		}
		plans := faultPlans(census[i], quick)
		for _, p := range plans {
			tasks = append(tasks, faultTask{Cfg: h.cfg, Ops: h.ops, Faults: []faultSpec{p}, Probe: id == "C09"})
		}
		hasRe := false
		for _, op := range h.ops {
			if op == "re" {
				hasRe = true
			}
		}
		if hasRe && len(h.ops) <= 4 {
			// recovery with TWO journals that both hold data needs a flush that did not happen
			// before Close: the first fault makes one table creation fail (the flush of the frozen
			// buffer fails and its retry is still waiting for its back-off when Close arrives, so
			// recovery itself is not disturbed by it), the second one hits
			// the journals during the reopen - positions the fault-free baseline does not have,
			// so they are enumerated blindly (a plan that never fires costs one run)
			first := faultSpec{Kind: int(vstor.KCreate), Type: int(storage.TypeTable), Nth: 1, Count: 1, Mode: int(vstor.ModeFail), Name: "create/table#1 x1 mode0"}
			for nth := 1; nth <= 3; nth++ {
				for pos := 0; pos <= 3; pos++ {
					tasks = append(tasks, faultTask{Cfg: h.cfg, Ops: h.ops, Probe: id == "C09", Faults: []faultSpec{first,
						{Kind: int(vstor.KRead), Type: int(storage.TypeJournal), Nth: nth, Count: 1, Mode: int(vstor.ModeFlip), Pos: pos, Name: fmt.Sprintf("read/journal#%d x1 mode2 pos%d", nth, pos)}}})
				}
				tasks = append(tasks, faultTask{Cfg: h.cfg, Ops: h.ops, Probe: id == "C09", Faults: []faultSpec{first,
					{Kind: int(vstor.KOpen), Type: int(storage.TypeJournal), Nth: nth, Count: 1, Mode: int(vstor.ModeFail), Name: fmt.Sprintf("open/journal#%d x1 mode0", nth)}}})
				tasks = append(tasks, faultTask{Cfg: h.cfg, Ops: h.ops, Probe: id == "C09", Faults: []faultSpec{first,
					{Kind: int(vstor.KWrite), Type: int(storage.TypeJournal), Nth: nth, Count: 1, Mode: int(vstor.ModePartial), Name: fmt.Sprintf("write/journal#%d x1 mode1", nth)}}})
			}
		}
		if double && len(h.ops) <= 2 {
			// pairs of single faults (first: fail once; second: any plan)
			for a := 0; a < len(plans); a++ {
				if plans[a].Mode != int(vstor.ModeFail) || plans[a].Count != 1 {
					continue
				}
				for b := 0; b < len(plans); b++ {
					if plans[b].Count != 1 || (plans[b].Kind == plans[a].Kind && plans[b].Type == plans[a].Type) {
						continue
					}
					tasks = append(tasks, faultTask{Cfg: h.cfg, Ops: h.ops, Faults: []faultSpec{plans[a], plans[b]}, Probe: id == "C09"})
				}
			}
		}
	}
	exh := true
	byKind := map[string]int{}
	surfaced := map[string]bool{}
	const chunk = 2048
	done := 0
	for start := 0; start < len(tasks); start += chunk {
		if c.OutOfTime() {
			exh = false
			break
		}
		end := start + chunk
		if end > len(tasks) {
			end = len(tasks)
		}
		raw = raw[:0]
		for _, t := range tasks[start:end] {
			raw = append(raw, explore.MustJSON(t))
		}
		pool.Map(raw, func(i int, b []byte, err error) {
			t := tasks[start+i]
			var r faultResult
			if err != nil {
				r.Viol = explore.CrashViol(err)
				r.Hang = r.Viol
			} else {
				json.Unmarshal(b, &r)
			}
			done++
			c.Add("evaluations", 1)
			if r.Fired > 0 {
				c.Add("plans_fired", 1)
			}
			name := ""
			for _, f := range t.Faults {
				name += f.Name + ";"
				byKind[fmt.Sprintf("%s/%s", vstor.Kind(f.Kind), storage.FileType(f.Type))]++
			}
			if r.Surfaced > 0 {
				c.Add("plans_error_surfaced", 1)
				surfaced[t.Cfg+"|"+strings.Join(t.Ops, " ")+"|"+name] = true
			}
			var bad []string
			if id == "C08" {
				bad = r.Viol
				if len(r.Hang) > 0 {
					c.Add("inconclusive_hang", 1)
				}
			} else {
				bad = r.Hang
			}
			if len(bad) > 0 && c.Viol+c.Known < 400 {
				// diagnostic re-run recording call sites (same deterministic execution)
				t2 := t
				t2.Where = true
				pool2 := wherePool(id)
				pool2.Map([][]byte{explore.MustJSON(t2)}, func(_ int, b2 []byte, err2 error) {
					var r2 faultResult
					if err2 == nil && json.Unmarshal(b2, &r2) == nil && len(r2.Blocked) > 0 {
						r.Blocked = r2.Blocked
					}
				})
			}
			if len(bad) > 0 {
				eff := bad[0]
				if j := strings.Index(eff, "; issued="); j > 0 {
					eff = eff[:j]
				}
				fk := ""
				for _, f := range t.Faults {
					fk += fmt.Sprintf("%s/%s/x%d/mode%d;", vstor.Kind(f.Kind), storage.FileType(f.Type), f.Count, f.Mode)
				}
				blockedAt := ""
				for _, bl := range r.Blocked {
					if strings.Contains(bl, "g0(main)") {
						if j := strings.Index(bl, " at "); j >= 0 {
							blockedAt = stripLines(bl[j+4:])
						}
					}
				}
				c.Report(&explore.Violation{Property: id, Sig: map[string]string{
					"check": "fault", "config": t.Cfg, "ops": strings.Join(t.Ops, " "), "fault": fk, "faultpos": name, "effect": eff, "phase": r.Phase, "blocked": blockedAt,
				}, Detail: map[string]any{"task": t, "result": r}})
			} else if done%997 == 0 {
				c.Sample(map[string]any{"cfg": t.Cfg, "history": t.Ops, "faults": name, "errors_seen": r.Errs})
			}
		})
		if c.Viol > 30 {
			exh = false
			break
		}
	}
	c.Add("distinct_nontrivial", len(surfaced))
	c.Coverage["histories"] = len(hs)
	c.Coverage["plans_planned"] = len(tasks)
	c.Coverage["faults_by_kind"] = byKind
	c.SetExhaustive(exh && done == len(tasks))
	c.Coverage["worker_crashes"] = pool.Crashes
	if p := wherePools[id]; p != nil {
		p.Close()
		delete(wherePools, id)
	}
	if len(tasks) > 0 {
		c.Sample(map[string]any{"cfg": tasks[0].Cfg, "history": tasks[0].Ops, "fault": tasks[0].Faults})
	}
}

var c08Throttle = [][]string{
	{"put:a", "put:b", "trx:+a,+c", "put:c", "q", "re"},
	{"trx:+a,+b", "trx:+b,+c", "trx:-a,+c", "put:a", "q"},
	{"put:a", "put:b", "put:c", "del:a", "put:b", "q", "put:c"},
	{"trxr:+a,+b", "trxr:+b,-a", "put:c", "re", "put:a"},
}

func init() {
	register(&Check{
		ID:     "C08",
		Level:  "fault_enumeration",
		Worker: faultWorker,
		Main: func(c *explore.Ctx) {
			cfgs := []string{"flushy/bytewise", "rot/bytewise", "bigbatch/bytewise"}
			hist := append([][]string{}, c04Long...)
			quick := c.Tier == "quick"
			depth := 3
			if !quick {
				depth = 4
				cfgs = append(cfgs, "default/bytewise", "nobig/bytewise", "deep/bytewise")
			}
			for _, s := range genSeqs(c08Alpha, depth) {
				if len(s) > 0 {
					hist = append(hist, s)
				}
			}
			// recovery under faults: close and reopen in the middle of the history, in states where
			// one or two journals have to be replayed (the frozen buffer is still unflushed at Close)
			for _, s := range genSeqs([]string{"Sput:a", "put:b", "w:+a,-b", "big"}, 2) {
				if len(s) > 0 {
					hist = append(hist, append(append([]string{}, s...), "re"), append(append([]string{}, s...), "re", "put:c"))
				}
			}
			// a transaction whose failed Commit is retried (the record object is reused), then more
			// writes, then a reopen
			hist = append(hist, []string{"trxr:+a,+b", "put:c", "re"}, []string{"Sput:a", "trxr:+b,-a", "Sput:c", "q", "re"}, []string{"trxr:+a,+b", "trxr:+b,+c", "re", "put:a"})
			// journals of several 32 KiB blocks: records that span blocks and journal reads
			hist = append(hist, []string{"SputX:a", "re"}, []string{"Sput:b", "SputX:a", "Sput:c", "re"}, []string{"SputX:a", "SputX:b", "re", "Sput:c"})
			rd, rmax := 5, 6
			if !quick {
				rd, rmax = 7, 16
			}
			extra := richHistories(c, "C08", rd, rmax)
			// writers and transaction commits that wait for the table compaction (level-0 pause
			// trigger reached), with that compaction failing
			for _, h := range c08Throttle {
				extra = append(extra, cfgHist{"throttle/bytewise", h})
			}
			runFaultCheck(c, "C08", cfgs, hist, false, !quick, extra...)
			c.Coverage["rule"] = "per history (all sequences up to the depth over the alphabet plus 6 long histories, per configuration): one run per fault plan = k-th operation of each (kind, file type) seen in the fault-free baseline x {fail once, fail 3x, half-written write, performed-but-reported-failed, flipped read byte}; thorough adds ordered pairs of single faults on the short histories; oracle: contents while running and after clean close + fault-free reopen must be explained by all acknowledged writes plus some subset of the failed ones; distinct_nontrivial = distinct (history, plan) whose error surfaced to a client call"
			c.Coverage["alphabet"] = c08Alpha
			c.Assume = []string{"faults start after the initial Open; histories with 're' close and reopen the DB under the fault plan (Open retried up to 6 times)", "the history runs on the default schedule; timers on the virtual clock (120 virtual seconds of settling after the history)", "a reopen failure after a half-written record is attributed to the fault (durable bytes damaged) and not reported"}
		},
	})
}
