package checks

import (
	"encoding/json"

	"verif/explore"
)

// C06 — the live table set is a well-formed LSM tree. A monitor hooked into the scheduler
// validates EVERY version the moment it becomes current (not only at operation boundaries):
// files exist with the recorded size, entries strictly increasing, recorded smallest/largest =
// first/last entry, levels >= 1 ordered and disjoint in user keys, and for every user key
// shallower levels strictly newer than deeper ones. It runs inside a breadth-first search over
// operation sequences (writes, batches, transactions, manual/automatic compactions, reopen).

var c06Alpha = []string{"put:a", "put:b", "put:c", "del:a", "del:b", "putL:c", "b1", "b2", "trx:+a,+c,-b", "cr", "crb", "q", "re"}

func init() {
	register(&Check{
		ID:    "C06",
		Level: "model_checking",
		Worker: func(task []byte) []byte {
			var probe struct {
				Cmp string `json:"pick_cmp"`
			}
			if json.Unmarshal(task, &probe) == nil && probe.Cmp != "" {
				var t pickTask
				json.Unmarshal(task, &t)
				return explore.MustJSON(runPick(&t))
			}
			return seqWorker(nil)(task)
		},
		Main: func(c *explore.Ctx) {
			var specs []seqSpec
			add := func(cfg string, alpha []string, d int, probes []string) {
				specs = append(specs, seqSpec{Cfg: cfg, Alpha: alpha, Depth: d, Checks: "db", Mode: "lsm", Probes: probes})
			}
			d1, d2 := 4, 4
			if c.Tier == "thorough" {
				d1, d2 = 5, 5
			}
			add("flushy/bytewise", c06Alpha, d1, nil)
			add("deep/bytewise", c06Alpha, d1, nil)
			add("wide/bytewise", c06Alpha, d1, nil)
			add("rot/bytewise", c06Alpha, d2, nil)
			add("tightcomp/bytewise", c06Alpha, d1, nil)
			add("throttle/bytewise", c06Alpha, d2, nil)
			add("flushy/bytewise", emptyKeyAlpha, d1, emptyKeyProbes)
			add("deep/bytewise", emptyKeyAlpha, d2, emptyKeyProbes)
			add("mixed/bytewise", shapeAlpha, d2, shapeProbes)
			add("bigbatch/bytewise", c06Alpha, d2, nil)
			for _, k := range []string{"shortlex", "revtail", "xormap", "lazy"} {
				a, p := cmpAlpha(k)
				add("flushy/"+k, a, d1, p)
				add("deep/"+k, a, d2, p)
			}
			pp := explore.NewPool(0, "worker", "C06")
			runPickPhase(c, pp, c.Tier == "quick")
			pp.Close()
			runSpecs(c, "C06", specs,
				"breadth-first search over operation sequences (as C01, plus transactions); a scheduler step hook validates every version at the instant session.stVersion changes, by reading every live table back from storage with table.NewReader; x_versions_checked / x_tables_read_back count the monitor's work; plus compaction-input closure: every synthetic layout of <=3 level-0 tables (any overlaps, as intervals over 5 (thorough 6) keys) x every set of <=3 disjoint level-1 tables x 3 comparers is given to the real newCompaction/expand/getOverlaps for every seeding (each level-0 table, every key range): no level-1 table outside the inputs may overlap the inputs' joint range, no level-0 table outside the inputs may overlap the level-0 inputs (pick_* counters)",
				[]string{"3-key alphabets per comparer; layouts forced by tiny option values", "versions installed by Recover are checked in C19, versions after a crash in C04"})
		},
	})
}
