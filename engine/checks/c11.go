package checks

import (
	"verif/explore"
	"verif/harness"
)

// C11 — transactions: isolation, atomicity, no residue. Sequence search with transaction
// bodies in the alphabet; after every step reads through the transaction must equal
// (state at open ⊕ its writes) and reads through the DB, a fresh snapshot and a fresh iterator
// must equal the state without them; after Commit everything is visible; after Discard or
// Close-with-open-transaction nothing is, and storage holds no leftover table.

var c11Alpha = []string{"put:a", "del:b", "q", "otr", "tput:a", "tput:b", "tdel:a", "twrite", "commit", "discard", "reT", "re", "snap", "rel:0", "big", "cr", "titer", "reliter"}

func init() {
	hk := &seqHooks{After: func(w *harness.World, t *seqTask, r *seqResult) {
		if len(t.Ops) == 0 {
			return
		}
		switch t.Ops[len(t.Ops)-1] {
		case "discard", "reT", "commit", "re", "cr":
			w.CheckResidue("after " + t.Ops[len(t.Ops)-1])
			r.Extra["residue_checks"]++
		}
		// a fresh snapshot must not see an open transaction's writes
		if w.Tr != nil && !w.Failed() {
			w.Apply("snap")
			w.CheckViews()
			r.Extra["fresh_snapshot_checks"]++
		}
	}}
	register(&Check{
		ID:     "C11",
		Level:  "model_checking",
		Worker: seqWorker(hk),
		Main: func(c *explore.Ctx) {
			var specs []seqSpec
			d1, d2 := 6, 5
			if c.Tier == "thorough" {
				d1, d2 = 8, 7
			}
			specs = append(specs,
				seqSpec{Cfg: "bigbatch/bytewise", Alpha: c11Alpha, Depth: d1, Checks: "db,views"},
				seqSpec{Cfg: "flushy/bytewise", Alpha: c11Alpha, Depth: d1, Checks: "db,views"},
				seqSpec{Cfg: "rot/bytewise", Alpha: c11Alpha, Depth: d2, Checks: "db,views"},
				seqSpec{Cfg: "throttle/bytewise", Alpha: c11Alpha, Depth: d2, Checks: "db,views"},
				seqSpec{Cfg: "default/bytewise", Alpha: c11Alpha, Depth: d2, Checks: "db,views"},
			)
			for _, cfg := range []string{"nocache/bytewise", "evict/bytewise"} {
				specs = append(specs, seqSpec{Cfg: cfg, Alpha: c07AlphaTr, Depth: d2, Checks: "db,views", Mode: "from-held-transaction-iterator", Prefixes: c07TrPrefixes})
			}
			runSpecs(c, "C11", specs,
				"breadth-first search over sequences including OpenTransaction / Transaction.Put/Delete/Write / Commit / Discard / Close-with-open-transaction / large-batch Write; after every transition the transaction view, the DB view, live snapshots and a fresh snapshot are compared with their models; after Discard, Close, Commit, Reopen and CompactRange the storage listing must equal live tables + live journal(s) + live manifest once background work is quiescent (x_residue_checks)",
				[]string{"crash around Commit is covered by C04 (trx histories), commit failures by C08/C09, concurrent readers by C05 (transaction-vs-reader)", "transaction bodies of up to depth-1 operations; the 40-byte write buffer of bigbatch makes bodies flush internally"})
		},
	})
}
