package findings

import (
	"os"
	"testing"

	"github.com/syndtr/goleveldb/leveldb"
	"github.com/syndtr/goleveldb/leveldb/opt"
	"github.com/syndtr/goleveldb/leveldb/storage"
	"github.com/syndtr/goleveldb/leveldb/util"
)

// Demonstrations of the OPEN known findings (known_findings.jsonl). They fail while the
// defect is present, so they only run with VERIF_DEMO_OPEN=1.

type flipOnce struct {
	storage.Storage
	typ storage.FileType
	arm int
}

type flipReader struct {
	storage.Reader
	s *flipOnce
}

func (r *flipReader) Read(p []byte) (int, error) {
	n, err := r.Reader.Read(p)
	if n > 20 && r.s.arm > 0 {
		r.s.arm--
		p[n-3] ^= 0x01 // inside the last record read: its checksum no longer matches
	}
	return n, err
}

func (s *flipOnce) Open(fd storage.FileDesc) (storage.Reader, error) {
	r, err := s.Storage.Open(fd)
	if err != nil || fd.Type != s.typ {
		return r, err
	}
	return &flipReader{r, s}, nil
}

func manifestMisread(t *testing.T, strict opt.Strict) (firstErr, laterErr error) {
	st := &flipOnce{Storage: storage.NewMemStorage(), typ: storage.TypeManifest}
	o := flushy()
	o.Strict = strict
	db, err := leveldb.Open(st, o)
	if err != nil {
		t.Fatal(err)
	}
	for _, k := range []string{"a", "b", "a", "c", "a"} {
		if err := db.Put([]byte(k), []byte("v-"+k), &opt.WriteOptions{Sync: true}); err != nil {
			t.Fatal(err)
		}
	}
	if err := db.CompactRange(util.Range{}); err != nil {
		t.Fatal(err)
	}
	db.Close()
	st.arm = 1
	db, firstErr = leveldb.Open(st, o)
	if firstErr == nil {
		db.Close()
	}
	for i := 0; i < 2; i++ {
		db, laterErr = leveldb.Open(st, o)
		if laterErr != nil {
			return
		}
		mustGet(t, db, "a", "v-a")
		db.Close()
	}
	return
}

// F-C08-MF: one transient misread of the manifest bricks the DB under the default options.
func TestOpenFinding_ManifestMisreadBecomesPermanent(t *testing.T) {
	if os.Getenv("VERIF_DEMO_OPEN") == "" {
		t.Skip("open known finding; set VERIF_DEMO_OPEN=1 to see it fail")
	}
	first, later := manifestMisread(t, opt.DefaultStrict)
	t.Logf("default options: first Open: %v", first)
	if later != nil {
		t.Fatalf("Open after the misread stopped still fails: %v", later)
	}
}

// With StrictManifest the misread is reported and nothing is persisted: the next Open works.
func TestOpenFinding_ManifestMisreadStrictIsHarmless(t *testing.T) {
	first, later := manifestMisread(t, opt.DefaultStrict|opt.StrictManifest)
	if first == nil {
		t.Skip("the flipped byte did not hit a record")
	}
	if later != nil {
		t.Fatalf("strict manifest: Open after the misread stopped fails: %v", later)
	}
}

// failJournalWrite fails the n-th Write call on journal files (counted over all journals).
type failJournalWrite struct {
	storage.Storage
	nth   int
	calls int
}

type failJW struct {
	storage.Writer
	s *failJournalWrite
}

func (w *failJW) Write(p []byte) (int, error) {
	w.s.calls++
	if w.s.calls == w.s.nth {
		return 0, os.ErrInvalid
	}
	return w.Writer.Write(p)
}

func (s *failJournalWrite) Create(fd storage.FileDesc) (storage.Writer, error) {
	w, err := s.Storage.Create(fd)
	if err != nil || fd.Type != storage.TypeJournal {
		return w, err
	}
	return &failJW{w, s}, nil
}

// F-C07-JR: when the flush of the old journal fails inside a write-buffer rotation
// (DB.newMem: journal.Writer.Reset returns the error after it has already switched to the new
// file), newMem returns without removing the journal file it has just created; the next
// rotation creates yet another one, and the first stays on storage - unreferenced, its handle
// never closed - until the DB is reopened.
func TestOpenFinding_JournalLeftBehindByFailedRotation(t *testing.T) {
	if os.Getenv("VERIF_DEMO_OPEN") == "" {
		t.Skip("open known finding; set VERIF_DEMO_OPEN=1 to see it fail")
	}
	leaked := false
	for nth := 1; nth <= 12 && !leaked; nth++ {
		st := &failJournalWrite{Storage: storage.NewMemStorage(), nth: nth}
		o := flushy()
		o.WriteBuffer = 48
		db, err := leveldb.Open(st, o)
		if err != nil {
			t.Fatal(err)
		}
		failed := 0
		for i := 0; i < 12; i++ {
			if err := db.Put([]byte{'k', byte('a' + i%3)}, []byte("0123456789"), nil); err != nil {
				failed++
			}
		}
		db.CompactRange(util.Range{})
		db.CompactRange(util.Range{})
		logs, _ := st.List(storage.TypeJournal)
		if len(logs) > 1 {
			t.Logf("journal write #%d failed (%d Put errors): %d journal files on storage after everything settled: %v", nth, failed, len(logs), logs)
			leaked = true
		}
		db.Close()
	}
	if leaked {
		t.Fatalf("a journal file created by a failed write-buffer rotation is left on storage until the next Open")
	}
}
