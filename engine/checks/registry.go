// Package checks holds one driver per property plus the shared sequence-search engine.
package checks

import (
	"verif/explore"
)

// Check is one registered property check.
type Check struct {
	ID     string
	Level  string
	Main   func(c *explore.Ctx) // coordinator: enumerates, collects, reports
	Worker func(task []byte) []byte
}

var Registry = map[string]*Check{}

func register(c *Check) { Registry[c.ID] = c }
