package harness

import (
	"fmt"
	"strings"

	"github.com/syndtr/goleveldb/leveldb/filter"
	"github.com/syndtr/goleveldb/leveldb/opt"
)

// Config names an option set and a comparer.
type Config struct {
	Name string // "<optset>/<comparer>"
}

func (c Config) parts() (string, string) {
	p := strings.SplitN(c.Name, "/", 2)
	if len(p) == 1 {
		return p[0], "bytewise"
	}
	return p[0], p[1]
}

func (c Config) Comparer() string { _, k := c.parts(); return k }
func (c Config) OptSet() string   { o, _ := c.parts(); return o }

func flushy() *opt.Options {
	return &opt.Options{
		WriteBuffer:            1,
		CompactionL0Trigger:    2,
		CompactionTotalSize:    100,
		CompactionTableSize:    40,
		BlockSize:              16,
		BlockRestartInterval:   2,
		Compression:            opt.NoCompression,
		DisableSeeksCompaction: true,
	}
}

// Options builds a fresh opt.Options for the config.
func (c Config) Options() *opt.Options {
	os, cmp := c.parts()
	var o *opt.Options
	switch os {
	case "flushy":
		o = flushy()
	case "deep":
		o = flushy()
		o.CompactionL0Trigger = 1
		o.CompactionTotalSize = 60
		o.CompactionTotalSizeMultiplier = 2
	case "wide":
		o = flushy()
		o.WriteBuffer = 64
		o.CompactionL0Trigger = 4
		o.CompactionTableSize = 1 << 20
	case "widebloom":
		// tables of several blocks, each block with its own bloom filter partition
		o = flushy()
		o.WriteBuffer = 64
		o.CompactionL0Trigger = 4
		o.CompactionTableSize = 1 << 20
		o.Filter = filter.NewBloomFilter(10)
		o.FilterBaseLg = 4
	case "mixed":
		// several entries per buffer/table, outputs split into several tables, deep cascade
		o = flushy()
		o.WriteBuffer = 48
		o.CompactionL0Trigger = 1
		o.CompactionTotalSize = 60
		o.CompactionTotalSizeMultiplier = 2
		o.DisableLargeBatchTransaction = true
	case "rot":
		o = flushy()
		o.MaxManifestFileSize = 1
	case "tightcomp":
		// every size limit of compaction picking at its minimum: inputs are not expanded, outputs are
		// cut at the first overlap with the grandparent level, table sizes grow per level
		o = flushy()
		o.CompactionL0Trigger = 1
		o.CompactionTotalSize = 60
		o.CompactionTotalSizeMultiplier = 2
		o.CompactionExpandLimitFactor = 1
		o.CompactionGPOverlapsFactor = 1
		o.CompactionSourceLimitFactor = 1
		o.CompactionTableSizeMultiplier = 2
	case "throttle":
		// writers are slowed down at one level-0 table and wait for the table compaction at two
		o = flushy()
		o.WriteL0SlowdownTrigger = 1
		o.WriteL0PauseTrigger = 2
	case "bigbatch":
		o = flushy()
		o.WriteBuffer = 40
	case "nobig":
		o = flushy()
		o.WriteBuffer = 40
		o.DisableLargeBatchTransaction = true
	case "snappy":
		o = flushy()
		o.Compression = opt.SnappyCompression
		o.Filter = filter.NewBloomFilter(10)
		o.FilterBaseLg = 4
	case "nopool":
		o = flushy()
		o.DisableBufferPool = true
	case "nocache":
		o = flushy()
		o.DisableBlockCache = true
	case "evict":
		// removed tables are evicted from the block cache, which re-enables file-number reuse
		o = flushy()
		o.BlockCacheEvictRemoved = true
	case "nopoolcache":
		o = flushy()
		o.DisableBufferPool = true
		o.DisableBlockCache = true
	case "tinycache":
		o = flushy()
		o.BlockCacheCapacity = 1
		o.OpenFilesCacheCapacity = 1
	case "tinybloom":
		// a one-block cache in front of the buffer pool, with a filter that has no false positives:
		// a filter or data block whose buffer went back to the pool too early reads as garbage
		o = flushy()
		o.BlockCacheCapacity = 1
		o.Filter = ExactFilter{}
		o.FilterBaseLg = 1
	case "seeky":
		o = flushy()
		o.WriteBuffer = 64
		o.CompactionL0Trigger = 4
		o.CompactionTableSize = 1 << 20
		o.DisableSeeksCompaction = false
		o.IteratorSamplingRate = 1
	case "roomy":
		// default options except a 256 KiB write buffer and 64 KiB tables: nothing rotates in the small concurrent
		// drivers either way, but each execution no longer allocates (and zeroes) 4 MiB buffers
		o = &opt.Options{DisableSeeksCompaction: true, WriteBuffer: 256 << 10, CompactionTableSize: 64 << 10}
	case "default":
		o = &opt.Options{DisableSeeksCompaction: true}
	case "defaultnopool":
		o = &opt.Options{DisableSeeksCompaction: true, DisableBufferPool: true}
	default:
		panic(fmt.Sprintf("unknown option set %q", os))
	}
	k, ok := Comparers[cmp]
	if !ok {
		panic(fmt.Sprintf("unknown comparer %q", cmp))
	}
	o.Comparer = k
	return o
}
