// racepass is the free-running audit of the data-race-freedom assumption behind the
// schedule-point exploration: the same client programs as the schedule-search drivers run on
// real goroutines against the UN-instrumented goleveldb, built with -race. It decides
// nothing (sampling); it only reports whether the race detector fired.
//
// usage: racepass <iterations>
package main

import (
	"fmt"
	"os"
	"strconv"
	"strings"
	"sync"

	"github.com/syndtr/goleveldb/leveldb"
	"github.com/syndtr/goleveldb/leveldb/cache"
	"github.com/syndtr/goleveldb/leveldb/comparer"
	"github.com/syndtr/goleveldb/leveldb/memdb"
	"github.com/syndtr/goleveldb/leveldb/opt"
	"github.com/syndtr/goleveldb/leveldb/storage"
	"github.com/syndtr/goleveldb/leveldb/util"
)

type driver struct {
	name    string
	o       func() *opt.Options
	pre     []string
	clients [][]string
}

func flushy() *opt.Options {
	return &opt.Options{WriteBuffer: 1, CompactionL0Trigger: 2, CompactionTotalSize: 100, CompactionTableSize: 40, BlockSize: 16, BlockRestartInterval: 2, Compression: opt.NoCompression, DisableSeeksCompaction: true}
}
func deflt() *opt.Options { return &opt.Options{DisableSeeksCompaction: true} }
func bigb() *opt.Options  { o := flushy(); o.WriteBuffer = 40; return o }
func tiny() *opt.Options {
	o := flushy()
	o.BlockCacheCapacity = 1
	o.OpenFilesCacheCapacity = 1
	return o
}

var drivers = []driver{
	{"program-order", deflt, nil, [][]string{{"put:a", "put:b"}, {"get:b", "get:a"}}},
	{"batch-atomic", deflt, []string{"put:a", "put:b"}, [][]string{{"w:+a,+b"}, {"snapget:a,b"}, {"iterscan"}}},
	{"flush-vs-readers", flushy, nil, [][]string{{"put:a", "put:a"}, {"get:a"}, {"snapget:a"}}},
	{"flush-vs-iter", flushy, []string{"put:b"}, [][]string{{"put:a", "put:a"}, {"iterscan"}}},
	{"two-writers-merge", deflt, nil, [][]string{{"put:a", "put:b"}, {"put:b", "put:a"}, {"get:a", "get:b"}}},
	{"transaction-vs-reader", bigb, []string{"put:a"}, [][]string{{"tr:+a,+b"}, {"get:a", "get:b"}}},
	{"compact-vs-rw", flushy, []string{"put:a", "put:b"}, [][]string{{"put:a"}, {"cr"}, {"get:a", "get:b"}}},
	{"writers-vs-close", deflt, nil, [][]string{{"put:a", "put:b"}, {"put:b"}, {"close"}}},
	{"readers-vs-close", tiny, []string{"put:a", "put:b"}, [][]string{{"get:a", "iterscan"}, {"snapget:a,b"}}},
	{"writer-vs-readonly", deflt, nil, [][]string{{"put:a", "put:b"}, {"ro"}, {"get:a"}}},
	{"4-writers", deflt, nil, [][]string{{"put:a"}, {"put:b"}, {"put:a"}, {"put:b"}}},
}

func apply(db *leveldb.DB, op string, val string) {
	t, arg := op, ""
	if i := strings.IndexByte(op, ':'); i >= 0 {
		t, arg = op[:i], op[i+1:]
	}
	switch t {
	case "put":
		db.Put([]byte(arg), []byte(val), nil)
	case "del":
		db.Delete([]byte(arg), nil)
	case "w", "tr":
		b := new(leveldb.Batch)
		for _, f := range strings.Split(arg, ",") {
			if f[0] == '-' {
				b.Delete([]byte(f[1:]))
			} else {
				b.Put([]byte(f[1:]), []byte(val))
			}
		}
		if t == "w" {
			db.Write(b, nil)
		} else if tr, err := db.OpenTransaction(); err == nil {
			if tr.Write(b, nil) != nil || tr.Commit() != nil {
				tr.Discard()
			}
		}
	case "get":
		db.Get([]byte(arg), nil)
	case "snapget":
		if s, err := db.GetSnapshot(); err == nil {
			for _, k := range strings.Split(arg, ",") {
				s.Get([]byte(k), nil)
			}
			s.Release()
		}
	case "iterscan":
		it := db.NewIterator(nil, nil)
		for it.Next() {
			_ = it.Value()
		}
		it.Release()
	case "cr":
		db.CompactRange(util.Range{})
	case "close":
		db.Close()
	case "ro":
		db.SetReadOnly()
	}
}

type cv struct{ n int }

func (c *cv) Release() {}

func main() {
	n := 50
	if len(os.Args) > 1 {
		n, _ = strconv.Atoi(os.Args[1])
	}
	runs := 0
	for it := 0; it < n; it++ {
		for _, d := range drivers {
			db, err := leveldb.Open(storage.NewMemStorage(), d.o())
			if err != nil {
				fmt.Println("open:", err)
				os.Exit(2)
			}
			for i, op := range d.pre {
				apply(db, op, fmt.Sprintf("p%d", i))
			}
			var wg sync.WaitGroup
			for ci, ops := range d.clients {
				wg.Add(1)
				go func(ci int, ops []string) {
					defer wg.Done()
					for oi, op := range ops {
						apply(db, op, fmt.Sprintf("c%d.%d", ci, oi))
					}
				}(ci, ops)
			}
			wg.Wait()
			db.Close()
			runs++
		}
		// memdb: one writer against readers (C14)
		m := memdb.New(comparer.DefaultComparer, 256)
		var wg sync.WaitGroup
		wg.Add(3)
		go func() {
			defer wg.Done()
			for i := 0; i < 20; i++ {
				m.Put([]byte{byte('a' + i%3)}, []byte(strings.Repeat("x", i%3)))
				if i%5 == 4 {
					m.Delete([]byte{byte('a' + i%3)})
				}
			}
		}()
		for r := 0; r < 2; r++ {
			go func() {
				defer wg.Done()
				for i := 0; i < 10; i++ {
					it := m.NewIterator(nil)
					for it.Next() {
						_ = it.Value()
					}
					it.Release()
					m.Get([]byte("b"))
					m.Find([]byte("a"))
				}
			}()
		}
		wg.Wait()
		// cache (C17)
		c := cache.NewCache(cache.NewLRU(1))
		wg.Add(3)
		for g := 0; g < 3; g++ {
			go func(g int) {
				defer wg.Done()
				for i := 0; i < 20; i++ {
					k := uint64(1 + (i+g)%2)
					if h := c.Get(0, k, func() (int, cache.Value) { return 1, &cv{i} }); h != nil {
						_ = h.Value()
						h.Release()
					}
					switch (i + g) % 7 {
					case 3:
						c.Evict(0, k)
					case 5:
						c.Delete(0, k, func() {})
					case 6:
						c.EvictAll()
					}
				}
			}(g)
		}
		wg.Wait()
		c.Close(false)
		runs += 2
	}
	fmt.Printf("race-audit: runs=%d races=0\n", runs)
}
