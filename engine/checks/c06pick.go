package checks

import (
	"encoding/json"
	"fmt"

	"github.com/syndtr/goleveldb/leveldb"
	"github.com/syndtr/goleveldb/leveldb/opt"
	"verif/explore"
	"verif/harness"
)

// Compaction-input closure (part of C06): every small synthetic level layout is handed to
// the REAL newCompaction/expand/getOverlaps through an overlay-added driver, for every way a
// compaction can be seeded (each table of level 0 and 1, every key range at both levels).
// Invariants on the selected inputs (S0 at level L, S1 at level L+1, R = their joint range):
//   I1  no table of level L+1 outside S1 overlaps R   (else the output overlaps a survivor);
//   I2  for L = 0: no level-0 table outside S0 overlaps the range of S0 (else newer data
//       would sink below an older overlapping table).

type pickTask struct {
	Cmp  string `json:"pick_cmp"`
	K    int    `json:"k"`
	From int    `json:"from"` // index range over level-0 lists
	To   int    `json:"to"`
}

type pickResult struct {
	Layouts, Compactions, Grown int
	Viol                        []string
}

type ival struct{ lo, hi int }

func intervals(k int) []ival {
	var out []ival
	for a := 0; a < k; a++ {
		for b := a; b < k; b++ {
			out = append(out, ival{a, b})
		}
	}
	return out
}

// disjointSets enumerates sorted sets of up to max pairwise disjoint intervals.
func disjointSets(k, max int) [][]ival {
	out := [][]ival{{}}
	var rec func(start int, cur []ival)
	rec = func(start int, cur []ival) {
		if len(cur) == max {
			return
		}
		for a := start; a < k; a++ {
			for b := a; b < k; b++ {
				nx := append(append([]ival{}, cur...), ival{a, b})
				out = append(out, nx)
				rec(b+1, nx)
			}
		}
	}
	rec(0, nil)
	return out
}

func l0Lists(k, max int) [][]ival {
	iv := intervals(k)
	out := [][]ival{{}}
	level := [][]ival{{}}
	for d := 0; d < max; d++ {
		var next [][]ival
		for _, l := range level {
			for _, x := range iv {
				next = append(next, append(append([]ival{}, l...), x))
			}
		}
		out = append(out, next...)
		level = next
	}
	return out
}

func runPick(t *pickTask) *pickResult {
	res := &pickResult{}
	ucmp := harness.Comparers[t.Cmp]
	// key index i -> user key such that comparer order == index order
	keys := make([][]byte, t.K)
	for i := range keys {
		keys[i] = []byte{byte('b' + i)}
	}
	if t.Cmp == "revtail" {
		for i := range keys {
			keys[i] = []byte{byte('b' + t.K - 1 - i)}
		}
	}
	if t.Cmp == "shortlex" {
		// b < c < ... then two-byte keys: mix lengths so that bytes.Compare disagrees
		for i := range keys {
			if i < t.K/2 {
				keys[i] = []byte{byte('m' + i)}
			} else {
				keys[i] = []byte{'a', byte('a' + i)}
			}
		}
	}
	p := leveldb.VerifNewPicker(&opt.Options{Comparer: ucmp})
	l0s := l0Lists(t.K, 3)
	l1s := disjointSets(t.K, 3)
	overlap := func(a, b ival) bool { return a.lo <= b.hi && b.lo <= a.hi }
	for li := t.From; li < t.To && li < len(l0s); li++ {
		l0 := l0s[li]
		for _, l1 := range l1s {
			res.Layouts++
			// build levels: L0 newest first (descending file number), L1 sorted by key
			var lv [][]leveldb.VerifTab
			var t0 []leveldb.VerifTab
			n := int64(100)
			for i := range l0 {
				t0 = append(t0, leveldb.VerifTab{Num: n - int64(i), Lo: keys[l0[i].lo], Hi: keys[l0[i].hi]})
			}
			var t1 []leveldb.VerifTab
			for i := range l1 {
				t1 = append(t1, leveldb.VerifTab{Num: int64(10 + i), Lo: keys[l1[i].lo], Hi: keys[l1[i].hi]})
			}
			lv = [][]leveldb.VerifTab{t0, t1}
			rng := map[int64]ival{}
			for i, x := range l0 {
				rng[n-int64(i)] = x
			}
			for i, x := range l1 {
				rng[int64(10+i)] = x
			}
			check := func(what string, level int, in0, in1 []int64) bool {
				res.Compactions++
				if level != 0 {
					return true
				}
				R := ival{1 << 30, -1}
				r0 := ival{1 << 30, -1}
				inS0, inS1 := map[int64]bool{}, map[int64]bool{}
				for _, f := range in0 {
					inS0[f] = true
					x := rng[f]
					if x.lo < R.lo {
						R.lo = x.lo
					}
					if x.hi > R.hi {
						R.hi = x.hi
					}
					if x.lo < r0.lo {
						r0.lo = x.lo
					}
					if x.hi > r0.hi {
						r0.hi = x.hi
					}
				}
				for _, f := range in1 {
					inS1[f] = true
					x := rng[f]
					if x.lo < R.lo {
						R.lo = x.lo
					}
					if x.hi > R.hi {
						R.hi = x.hi
					}
				}
				if len(in0) > 1 {
					res.Grown++
				}
				for i := range l1 {
					f := int64(10 + i)
					if !inS1[f] && overlap(l1[i], R) {
						res.Viol = append(res.Viol, fmt.Sprintf("%s (%s): L0=%v L1=%v: inputs L0%v+L1%v cover keys %d..%d but level-1 table %v is not an input (output would overlap it)", what, t.Cmp, l0, l1, in0, in1, R.lo, R.hi, l1[i]))
						return false
					}
				}
				for i := range l0 {
					f := n - int64(i)
					if !inS0[f] && overlap(l0[i], r0) {
						res.Viol = append(res.Viol, fmt.Sprintf("%s (%s): L0=%v L1=%v: level-0 inputs %v cover keys %d..%d but overlapping level-0 table %v is left behind", what, t.Cmp, l0, l1, in0, r0.lo, r0.hi, l0[i]))
						return false
					}
				}
				return true
			}
			for i := range l0 {
				in0, in1 := p.PickFrom(lv, 0, i)
				if !check(fmt.Sprintf("compaction seeded with level-0 table #%d", i), 0, in0, in1) {
					return res
				}
			}
			if len(l0) > 0 {
				for _, r := range intervals(t.K) {
					if in0, in1, ok := p.PickRange(lv, 0, keys[r.lo], keys[r.hi]); ok {
						if !check(fmt.Sprintf("range compaction of level 0 over keys %d..%d", r.lo, r.hi), 0, in0, in1) {
							return res
						}
					}
				}
			}
		}
	}
	return res
}

func runPickPhase(c *explore.Ctx, pool *explore.Pool, quick bool) {
	k := 5
	if !quick {
		k = 6
	}
	n := len(l0Lists(k, 3))
	var tasks []pickTask
	for _, cmp := range []string{"bytewise", "revtail", "shortlex"} {
		step := (n + 63) / 64
		for from := 0; from < n; from += step {
			tasks = append(tasks, pickTask{Cmp: cmp, K: k, From: from, To: from + step})
		}
	}
	var raw [][]byte
	for _, t := range tasks {
		raw = append(raw, explore.MustJSON(t))
	}
	pool.Map(raw, func(i int, b []byte, err error) {
		var r pickResult
		if err != nil {
			r.Viol = explore.CrashViol(err)
		} else {
			json.Unmarshal(b, &r)
		}
		c.Add("pick_layouts", r.Layouts)
		c.Add("pick_compactions", r.Compactions)
		c.Add("pick_grown_inputs", r.Grown)
		c.Add("transitions", r.Compactions)
		for _, v := range r.Viol {
			c.Report(&explore.Violation{Property: "C06", Sig: map[string]string{"check": "compaction-inputs", "comparer": tasks[i].Cmp, "effect": v}, Detail: map[string]any{"task": tasks[i], "violation": v}})
		}
	})
	c.Coverage["pick_keys"] = k
}
