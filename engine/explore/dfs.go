package explore

import (
	"encoding/json"
	"fmt"
	"sort"
	"time"

	"verif/vsched"
)

// Exec is what one execution of a scenario reports to the schedule explorer.
type Exec struct {
	Points   []vsched.ChoicePoint
	Verdict  string
	Viol     []string // property violations observed in this execution
	Hist     uint64   // hash of the observable history (distinct-history statistics)
	Outcome  string   // coarse outcome class (distinct-outcome statistics)
	Blocked  []string
	Diverged string
	Steps    int
	HBFinal  uint64 // happens-before fingerprint of the complete execution
	PrunedAt int    // >= 0: ended at this choice index, state already visited (no verdict)
	Aux      int    // scenario-specific work counter (e.g. crash images recovered in this execution)
}

// RunFunc executes the scenario once with the given choice prefix.
type RunFunc func(prefix []int) *Exec

// DFSTask is a subtree of the schedule tree handed to a worker.
type DFSTask struct {
	Scenario string          `json:"scenario"`
	Params   json.RawMessage `json:"params,omitempty"`
	Prefix   []int           `json:"prefix"`
	Budget   int             `json:"budget"`   // remaining deviation budget below the prefix
	Deadline int64           `json:"deadline"` // unix seconds; 0 = none
	MaxExecs int             `json:"max_execs"`
	Expand   bool            `json:"expand"` // only run the prefix itself and return its children (root sharding)
	// Preempt selects CHESS-style preemption bounding (switches at blocking points are free).
	// Default is deviation bounding: every departure from the default scheduler costs 1.
	Preempt bool `json:"preempt,omitempty"`
	// HB: happens-before state caching (vsched/hb.go): an execution that reaches, at a choice
	// point beyond its prefix, a state fingerprint already visited with at least the same
	// remaining budget is ended there and not expanded below that point. RunID scopes the
	// visited set of a worker process to one search (scenario x bound).
	HB    bool   `json:"hb,omitempty"`
	RunID string `json:"run_id,omitempty"`
	// Weighted: a departure from the default scheduler costs 2 when the running goroutine could
	// have continued (a preemption) or when it picks another ready select case, and 1 when the
	// running goroutine was blocked anyway (choosing who runs next); Budget is in these units.
	// Budget 2k therefore contains every schedule of the plain bound k and, in addition, those
	// with fewer preemptions and more reorderings of who wakes up first.
	Weighted bool `json:"weighted,omitempty"`
}

// DFSViolation is one failing schedule.
type DFSViolation struct {
	Choices []int    `json:"choices"`
	Viol    []string `json:"viol"`
	Verdict string   `json:"verdict"`
	Blocked []string `json:"blocked,omitempty"`
}

// DFSResult is a worker's answer.
type DFSResult struct {
	Execs     int            `json:"execs"`
	Capped    bool           `json:"capped"`
	MaxPoints int            `json:"max_points"`
	SumPoints int            `json:"sum_points"`
	Hists     []uint64       `json:"hists,omitempty"`
	Outcomes  map[string]int `json:"outcomes,omitempty"`
	Viols     []DFSViolation `json:"viols,omitempty"`
	Children  []DFSTask      `json:"children,omitempty"`
	Nondet    string         `json:"nondet,omitempty"`
	Rechecks  int            `json:"rechecks"`
	Pruned    int            `json:"pruned,omitempty"`    // executions ended at an already visited state
	HBTraces  []uint64       `json:"hb_traces,omitempty"` // distinct happens-before fingerprints of complete executions
	Aux       int            `json:"aux,omitempty"`       // sum of Exec.Aux
}

type dfsState struct {
	classes  map[string]bool
	preempt  bool
	run      RunFunc
	res      *DFSResult
	hists    map[uint64]bool
	deadline time.Time
	maxExecs int
	hb       bool
	weighted bool
	traces   map[uint64]bool
}

func (d *dfsState) cost(p *vsched.ChoicePoint) int {
	switch {
	case d.preempt:
		return p.Cost
	case d.weighted:
		if p.CurEnabled || p.SelCase {
			return 2
		}
		return 1
	}
	return 1
}

// visited set of this worker process for the current search (DFSTask.RunID)
var (
	hbRunID   string
	hbVisited map[uint64]int
)

const hbVisitedCap = 3 << 20

func (d *dfsState) setVisited(budget int) {
	if !d.hb {
		return
	}
	vsched.DefaultHB = true
	vsched.DefaultVisited = func(k uint64) bool {
		b, ok := hbVisited[k]
		if ok && b >= budget {
			return true
		}
		// bounded memory: beyond the cap known states are still recognised, new ones are
		// no longer remembered (costs pruning, never soundness)
		if ok || len(hbVisited) < hbVisitedCap {
			hbVisited[k] = budget
		}
		return false
	}
}

func (d *dfsState) stop() bool {
	if d.res.Capped {
		return true
	}
	if d.maxExecs > 0 && d.res.Execs >= d.maxExecs {
		d.res.Capped = true
		return true
	}
	if !d.deadline.IsZero() && d.res.Execs%64 == 0 && time.Now().After(d.deadline) {
		d.res.Capped = true
		return true
	}
	return false
}

func (d *dfsState) one(prefix []int) *Exec {
	x := d.run(prefix)
	d.res.Execs++
	if x.PrunedAt >= 0 && x.Verdict == "pruned" {
		d.res.Pruned++
		d.res.SumPoints += len(x.Points)
		return x
	}
	if d.hb {
		d.traces[x.HBFinal] = true
	}
	d.res.Aux += x.Aux
	if len(x.Points) > d.res.MaxPoints {
		d.res.MaxPoints = len(x.Points)
	}
	d.res.SumPoints += len(x.Points)
	if x.Diverged != "" {
		d.res.Nondet = fmt.Sprintf("prefix %v: %s", prefix, x.Diverged)
		d.res.Capped = true
		return x
	}
	// determinism self-check: every 256th execution and every candidate violation twice
	if d.res.Execs%256 == 1 || len(x.Viol) > 0 {
		saved := vsched.DefaultVisited
		vsched.DefaultVisited = nil
		y := d.run(prefix)
		vsched.DefaultVisited = saved
		d.res.Rechecks++
		if y.Hist != x.Hist || len(y.Points) != len(x.Points) || len(y.Viol) != len(x.Viol) {
			d.res.Nondet = fmt.Sprintf("prefix %v: replay differs (hist %x vs %x, points %d vs %d, viol %v vs %v)", prefix, x.Hist, y.Hist, len(x.Points), len(y.Points), x.Viol, y.Viol)
			d.res.Capped = true
			return x
		}
	}
	d.hists[x.Hist] = true
	d.res.Outcomes[x.Outcome]++
	if len(x.Viol) > 0 && len(d.res.Viols) < 8 && d.newClass(x) {
		ch := make([]int, len(x.Points))
		for i, p := range x.Points {
			ch[i] = p.Chosen
		}
		d.res.Viols = append(d.res.Viols, DFSViolation{Choices: ch, Viol: x.Viol, Verdict: x.Verdict, Blocked: x.Blocked})
	}
	return x
}

// newClass de-duplicates violations of one subtree by verdict + text (digits ignored), so
// that many instances of one (possibly known) failure cannot crowd out a different one.
func (d *dfsState) newClass(x *Exec) bool {
	if d.classes == nil {
		d.classes = map[string]bool{}
	}
	var b []byte
	b = append(b, x.Verdict...)
	for _, c := range []byte(x.Viol[0]) {
		if c < '0' || c > '9' {
			b = append(b, c)
		}
	}
	for _, bl := range x.Blocked {
		if len(bl) < 300 {
			for _, c := range []byte(bl) {
				if c < '0' || c > '9' {
					b = append(b, c)
				}
			}
		}
	}
	k := string(b)
	if d.classes[k] {
		return false
	}
	d.classes[k] = true
	return true
}

func (d *dfsState) explore(prefix []int, budget int) {
	if d.stop() {
		return
	}
	d.setVisited(budget)
	x := d.one(prefix)
	if d.res.Capped {
		return
	}
	base := make([]int, len(x.Points))
	for i, p := range x.Points {
		base[i] = p.Chosen
	}
	for i := len(prefix); i < len(x.Points); i++ {
		p := x.Points[i]
		cost := d.cost(&p)
		if cost > budget {
			continue
		}
		for alt := 1; alt < p.N; alt++ {
			child := append(append(make([]int, 0, i+1), base[:i]...), alt)
			d.explore(child, budget-cost)
			if d.res.Capped {
				return
			}
		}
	}
}

// RunDFSTask is the worker side of the schedule search.
func RunDFSTask(t *DFSTask, run RunFunc) *DFSResult {
	res := &DFSResult{Outcomes: map[string]int{}}
	d := &dfsState{run: run, res: res, hists: map[uint64]bool{}, maxExecs: t.MaxExecs, preempt: t.Preempt, hb: t.HB, weighted: t.Weighted, traces: map[uint64]bool{}}
	if t.Deadline > 0 {
		d.deadline = time.Unix(t.Deadline, 0)
	}
	vsched.DefaultHB, vsched.DefaultVisited = false, nil
	defer func() { vsched.DefaultHB, vsched.DefaultVisited = false, nil }()
	if t.HB && (hbRunID != t.RunID || hbVisited == nil) {
		hbRunID, hbVisited = t.RunID, map[uint64]int{}
	}
	if t.Expand {
		d.setVisited(t.Budget)
		x := d.one(t.Prefix)
		if !res.Capped {
			base := make([]int, len(x.Points))
			for i, p := range x.Points {
				base[i] = p.Chosen
			}
			for i := len(t.Prefix); i < len(x.Points); i++ {
				p := x.Points[i]
				cost := d.cost(&p)
				if cost > t.Budget {
					continue
				}
				for alt := 1; alt < p.N; alt++ {
					child := append(append(make([]int, 0, i+1), base[:i]...), alt)
					res.Children = append(res.Children, DFSTask{Scenario: t.Scenario, Params: t.Params, Prefix: child, Budget: t.Budget - cost, Deadline: t.Deadline, MaxExecs: t.MaxExecs, Preempt: t.Preempt, HB: t.HB, RunID: t.RunID, Weighted: t.Weighted})
				}
			}
		}
	} else {
		d.explore(t.Prefix, t.Budget)
	}
	for h := range d.hists {
		res.Hists = append(res.Hists, h)
		if len(res.Hists) >= 200000 {
			break
		}
	}
	sort.Slice(res.Hists, func(i, j int) bool { return res.Hists[i] < res.Hists[j] })
	for h := range d.traces {
		res.HBTraces = append(res.HBTraces, h)
		if len(res.HBTraces) >= 200000 {
			break
		}
	}
	return res
}

// UseHB switches happens-before state caching on for the searches started by RunDFS; set by
// the drivers whose harness code reports its own shared state as events (checks/conc.go).
var UseHB bool

// UseWeighted selects the weighted cost model (DFSTask.Weighted) for the searches started by RunDFS.
var UseWeighted bool

// DFSStats aggregates a whole search.
type DFSStats struct {
	Execs, MaxPoints, SumPoints, Rechecks int
	Hists                                 map[uint64]bool
	Outcomes                              map[string]int
	Viols                                 []DFSViolation
	Capped                                bool
	Nondet                                string
	Subtrees                              int
	Pruned                                int
	HBTraces                              map[uint64]bool
	Aux                                   int
}

// RunDFS explores the schedule tree of one scenario up to the deviation bound, sharding
// subtrees over the pool: the root and (for bounds >= 2) its children are expanded
// first, the resulting subtrees are searched by workers.
func RunDFS(c *Ctx, pool *Pool, scenario string, params any, bound int, maxExecsPerTask int, preempt ...bool) *DFSStats {
	st := &DFSStats{Hists: map[uint64]bool{}, Outcomes: map[string]int{}, HBTraces: map[uint64]bool{}}
	var pj json.RawMessage
	if params != nil {
		pj = MustJSON(params)
	}
	deadline := c.Start.Add(c.Budget).Unix()
	merge := func(r *DFSResult) {
		st.Execs += r.Execs
		st.SumPoints += r.SumPoints
		st.Rechecks += r.Rechecks
		st.Pruned += r.Pruned
		st.Aux += r.Aux
		for _, h := range r.HBTraces {
			if len(st.HBTraces) < 4<<20 {
				st.HBTraces[h] = true
			}
		}
		if r.MaxPoints > st.MaxPoints {
			st.MaxPoints = r.MaxPoints
		}
		for _, h := range r.Hists {
			if len(st.Hists) < 4<<20 {
				st.Hists[h] = true
			}
		}
		for k, v := range r.Outcomes {
			st.Outcomes[k] += v
		}
		if len(st.Viols) < 10 {
			st.Viols = append(st.Viols, r.Viols...)
		}
		if r.Capped {
			st.Capped = true
		}
		if r.Nondet != "" && st.Nondet == "" {
			st.Nondet = r.Nondet
		}
	}
	level := []DFSTask{{Scenario: scenario, Params: pj, Prefix: nil, Budget: bound, Deadline: deadline, MaxExecs: maxExecsPerTask, Expand: true, Preempt: len(preempt) > 0 && preempt[0],
		HB: UseHB, Weighted: UseWeighted, RunID: fmt.Sprintf("%s/%d/%d", scenario, bound, time.Now().UnixNano())}}
	// expand the root, and its children too while that still yields a manageable number of
	// subtrees (enough for 16 workers; with thousands of choice points per execution - statement
	// granularity - a second expansion would create tens of millions of task descriptions)
	for depth := 0; depth < 2 && len(level) > 0 && (depth == 0 || len(level) <= 512); depth++ {
		var tasks [][]byte
		for i := range level {
			level[i].Expand = true
			tasks = append(tasks, MustJSON(level[i]))
		}
		var next []DFSTask
		pool.Map(tasks, func(i int, b []byte, err error) {
			if err != nil {
				st.Capped = true
				if v := CrashViol(err); v != nil {
					st.Viols = append(st.Viols, DFSViolation{Choices: level[i].Prefix, Viol: v, Verdict: "worker-crash"})
				}
				return
			}
			var r DFSResult
			json.Unmarshal(b, &r)
			merge(&r)
			next = append(next, r.Children...)
		})
		level = next
	}
	st.Subtrees = len(level)
	// in chunks: the encoded task descriptions of one chunk at a time
	const chunk = 2048
	for start := 0; start < len(level); start += chunk {
		end := min(start+chunk, len(level))
		var tasks [][]byte
		for i := start; i < end; i++ {
			level[i].Expand = false
			tasks = append(tasks, MustJSON(level[i]))
		}
		pool.Map(tasks, func(i int, b []byte, err error) {
			if err != nil {
				st.Capped = true
				if v := CrashViol(err); v != nil {
					st.Viols = append(st.Viols, DFSViolation{Choices: level[start+i].Prefix, Viol: v, Verdict: "worker-crash"})
				}
				return
			}
			var r DFSResult
			json.Unmarshal(b, &r)
			merge(&r)
		})
		for i := start; i < end; i++ {
			level[i].Prefix = nil
		}
		if st.Capped && time.Now().Unix() >= deadline {
			break
		}
	}
	return st
}
