package checks

import (
	"encoding/json"
	"fmt"
	"strings"

	"github.com/syndtr/goleveldb/leveldb"
	"verif/harness"
	"verif/vsched"
	"verif/vsync"

	"github.com/syndtr/goleveldb/leveldb/storage"
	"verif/explore"
	"verif/vstor"
)

// C09 — no call blocks forever and Close always returns.
// (a) every single-fault plan of the C08 engine is followed by a probe suite (Put, Get,
//     iterator, transactions, CompactRange, Close): each call must return; the scheduler gives
//     an exact verdict (no goroutine enabled and no timer = deadlock; virtual clock passing
//     one hour with the client still blocked = hang).
// (b) schedule search (deviation bound) of clients racing Close / SetReadOnly / transactions.

func c09Drivers() []concParams {
	return []concParams{
		{Name: "writers-vs-close", Cfg: "roomy/bytewise", Clients: [][]string{{"put:a", "put:b"}, {"put:b"}, {"close"}}, SQ: 1, ST: 1},
		{Name: "tr-vs-writer-vs-close", Cfg: "bigbatch/bytewise", Clients: [][]string{{"tr:+a,+b"}, {"put:a"}, {"close"}}, QB: 2, TB: 3},
		{Name: "compact-vs-close", Cfg: "flushy/bytewise", Pre: []string{"put:a", "put:b"}, Clients: [][]string{{"put:a"}, {"cr"}, {"close"}}, QB: 2, TB: 3, SQ: 1, ST: 1},
		{Name: "readers-vs-close", Cfg: "tinycache/bytewise", Pre: []string{"put:a", "put:b", "q"}, Clients: [][]string{{"get:a", "iterscan"}, {"snapget:a,b"}, {"close"}}, QB: 1, TB: 2},
		{Name: "writer-vs-readonly", Cfg: "roomy/bytewise", Clients: [][]string{{"put:a", "put:b"}, {"ro"}, {"get:a"}}, SQ: 1, ST: 1},
		{Name: "two-tables-one-slot-vs-close", Cfg: "tinycache/bytewise", Pre: []string{"put:a", "put:b", "put:c", "cr", "q"}, Clients: [][]string{{"get:a", "get:c", "get:b"}, {"close"}}, QB: 2, TB: 3},
		{Name: "close-vs-close", Cfg: "roomy/bytewise", Clients: [][]string{{"put:a"}, {"close"}, {"close"}}, SQ: 1, ST: 1},
	}
}

// c09FaultDrivers: the schedule drivers with one storage fault armed during the window.
func c09FaultDrivers() []concParams {
	f := func(k vstor.Kind, t storage.FileType, nth, count int, m vstor.Mode) []faultSpec {
		return []faultSpec{{Kind: int(k), Type: int(t), Nth: nth, Count: count, Mode: int(m), Name: fmt.Sprintf("%s/%s#%d x%d", k, t, nth, count)}}
	}
	var out []concParams
	add := func(name, cfg string, pre []string, clients [][]string, fs []faultSpec) {
		out = append(out, concParams{Name: name, Cfg: cfg, Pre: pre, Clients: clients, Faults: fs, QB: 1, TB: 2})
	}
	for nth := 1; nth <= 2; nth++ {
		add(fmt.Sprintf("writers+journal-sync-fault#%d-vs-close", nth), "roomy/bytewise", nil, [][]string{{"put:a", "put:b"}, {"put:b"}, {"close"}}, f(vstor.KWrite, storage.TypeJournal, nth, 1, vstor.ModeFail))
		add(fmt.Sprintf("tr+manifest-sync-fault#%d-vs-writer", nth), "bigbatch/bytewise", nil, [][]string{{"tr:+a,+b"}, {"put:a"}, {"get:a"}}, f(vstor.KSync, storage.TypeManifest, nth, 3, vstor.ModeFail))
		add(fmt.Sprintf("flush+table-create-fault#%d-vs-reader-close", nth), "flushy/bytewise", []string{"put:a"}, [][]string{{"put:a", "put:b"}, {"get:a"}, {"close"}}, f(vstor.KCreate, storage.TypeTable, nth, 1, vstor.ModeFail))
		add(fmt.Sprintf("bigbatch+table-write-fault#%d-vs-writer", nth), "bigbatch/bytewise", nil, [][]string{{"w:+a,+b,+c"}, {"put:a"}, {"close"}}, f(vstor.KWrite, storage.TypeTable, nth, 1, vstor.ModeFail))
	}
	// two writers whose merged group fills the write buffer exactly: the leader rotates the
	// buffer after the write, and the rotation fails (journal create fault) or meets Close
	fill := []string{"putM:a", "putE:b"} // 38 of 64 bytes used: two 13-byte puts fill the buffer exactly
	out = append(out, concParams{Name: "merged-group-fills-buffer+journal-create-fault", Cfg: "wide/bytewise", Pre: fill, Clients: [][]string{{"put:a"}, {"put:b"}, {"get:a"}}, Faults: f(vstor.KCreate, storage.TypeJournal, 1, 1, vstor.ModeFail), QB: 2, TB: 3})
	out = append(out, concParams{Name: "merged-group-fills-buffer-vs-close", Cfg: "wide/bytewise", Pre: fill, Clients: [][]string{{"put:a"}, {"put:b"}, {"close"}}, QB: 2, TB: 3})
	out = append(out, concParams{Name: "merged-group-fills-buffer+table-create-fault", Cfg: "wide/bytewise", Pre: append([]string{"put:c", "put:c", "put:c", "put:c", "put:c"}, fill...), Clients: [][]string{{"put:a"}, {"put:b"}, {"put:c"}}, Faults: f(vstor.KCreate, storage.TypeTable, 1, 3, vstor.ModeFail), QB: 2, TB: 3})
	// a table (or one of its blocks) that cannot be opened / read while two readers ask for it
	// at the same time: the loser of the race waits for the winner's failed fill
	cold := []string{"put:a", "put:b", "cr", "q", "re"}
	for nth := 1; nth <= 2; nth++ {
		add(fmt.Sprintf("cold-table-open-fault#%d-vs-two-readers", nth), "flushy/bytewise", cold, [][]string{{"get:a"}, {"get:a"}, {"get:b"}}, f(vstor.KOpen, storage.TypeTable, nth, 1, vstor.ModeFail))
		add(fmt.Sprintf("cold-table-read-fault#%d-vs-two-readers", nth), "flushy/bytewise", cold, [][]string{{"get:a"}, {"get:a"}, {"iterscan"}}, f(vstor.KRead, storage.TypeTable, nth, 1, vstor.ModeFail))
	}
	out[len(out)-1].QB, out[len(out)-2].QB, out[len(out)-3].QB, out[len(out)-4].QB = 2, 2, 2, 2
	// switching to read-only while a flush keeps failing (transient compaction error being retried)
	for nth := 1; nth <= 2; nth++ {
		add(fmt.Sprintf("flush+table-create-fault#%d-vs-readonly", nth), "flushy/bytewise", []string{"put:a"}, [][]string{{"put:a", "put:b"}, {"ro", "put:c"}, {"get:a"}}, f(vstor.KCreate, storage.TypeTable, nth, 3, vstor.ModeFail))
		out[len(out)-1].QB = 2
	}
	// Close arrives while a compaction sits in its commit back-off (manifest faults) and a
	// transaction commit waits behind it
	for nth := 1; nth <= 2; nth++ {
		add(fmt.Sprintf("compact+manifest-sync-fault#%d-vs-tr-vs-close", nth), "flushy/bytewise", []string{"put:a", "put:b"}, [][]string{{"cr"}, {"tr:+a,+b"}, {"close"}}, f(vstor.KSync, storage.TypeManifest, nth, 3, vstor.ModeFail))
		out[len(out)-1].QB = 2
	}
	// writers and a transaction commit that wait for the table compaction (pause trigger at two
	// level-0 tables) while that compaction fails or the DB is closed
	thr := []string{"put:a", "put:b"}
	out = append(out, concParams{Name: "throttled-writers-vs-close", Cfg: "throttle/bytewise", Pre: thr, Clients: [][]string{{"put:a", "put:b"}, {"put:c"}, {"close"}}, QB: 1, TB: 2})
	for nth := 1; nth <= 2; nth++ {
		add(fmt.Sprintf("throttled-writers+table-create-fault#%d", nth), "throttle/bytewise", thr, [][]string{{"put:a", "put:b"}, {"tr:+a,+c"}, {"get:a"}}, f(vstor.KCreate, storage.TypeTable, nth, 3, vstor.ModeFail))
	}
	// a rotation whose journal creation fails hands its file number back while a table compaction
	// (two level-0 tables are waiting when the window opens) takes numbers for its outputs
	for nth := 1; nth <= 2; nth++ {
		add(fmt.Sprintf("rotation+journal-create-fault#%d-vs-table-compaction", nth), "flushy/bytewise", []string{"put:a", "put:b"}, [][]string{{"put:c", "put:a"}, {"get:a"}}, f(vstor.KCreate, storage.TypeJournal, nth, 1, vstor.ModeFail))
	}
	// removed tables hand their file numbers back (evict option set) while writers and compactions
	// take new ones
	out = append(out, concParams{Name: "evict-writers-vs-compactrange", Cfg: "evict/bytewise", Pre: []string{"put:a", "put:b", "put:c"}, Clients: [][]string{{"put:a", "put:b"}, {"cr"}, {"get:a"}}, QB: 1, TB: 2})
	add("compact+manifest-write-fault-vs-tr", "flushy/bytewise", []string{"put:a", "put:b"}, [][]string{{"cr"}, {"tr:+a,+b"}, {"put:c"}}, f(vstor.KWrite, storage.TypeManifest, 1, 1, vstor.ModeFail))
	return out
}

// File-number allocator under all interleavings: every goroutine runs a short script over
// {alloc, reuse the number just allocated, reuse an older number, mark}; oracle: everybody
// returns (a retry loop that can never succeed is a livelock), numbers held at the end are
// pairwise distinct and below the next number.
type c09Alloc struct {
	Name    string     `json:"name"`
	Scripts [][]string `json:"scripts"`
	Bound   int        `json:"bound"` // deviation bound (64 = all interleavings of the short scripts)
}

func c09AllocExec(p *c09Alloc, prefix []int) *explore.Exec {
	var viol []string
	r := vsched.Run(vsched.Options{Prefix: prefix, MaxSteps: 3000}, func() {
		vs, err := leveldb.VerifNewSession(vstor.New(), harness.Config{Name: "flushy/bytewise"}.Options())
		if err != nil {
			viol = append(viol, "session: "+err.Error())
			return
		}
		defer vs.Close()
		held := make([][]int64, len(p.Scripts))
		var wg vsync.WaitGroup
		vsched.Arm()
		for gi, sc := range p.Scripts {
			gi, sc := gi, sc
			wg.Add(1)
			vsched.GoNamed(fmt.Sprintf("a%d", gi), func() {
				defer wg.Done()
				for _, op := range sc {
					switch op {
					case "alloc":
						held[gi] = append(held[gi], vs.AllocNum())
					case "reuse":
						// give back the number allocated last by this goroutine
						if n := len(held[gi]); n > 0 {
							x := held[gi][n-1]
							held[gi] = held[gi][:n-1]
							vs.ReuseNum(x)
						}
					case "reuse-old":
						// give back the oldest number this goroutine holds (usually not the newest overall)
						if n := len(held[gi]); n > 0 {
							x := held[gi][0]
							held[gi] = held[gi][1:]
							vs.ReuseNum(x)
						}
					case "mark":
						vs.MarkNum(vs.NextNum() + 1)
					}
				}
			})
		}
		wg.Wait()
		vsched.Disarm()
		seen := map[int64]int{}
		next := vs.NextNum()
		for gi, hs := range held {
			for _, n := range hs {
				if g, dup := seen[n]; dup {
					viol = append(viol, fmt.Sprintf("file number %d is held by goroutines %d and %d at the same time", n, g, gi))
				}
				seen[n] = gi
				if n >= next {
					viol = append(viol, fmt.Sprintf("file number %d is in use but the allocator would hand out %d next", n, next))
				}
			}
		}
	})
	x := &explore.Exec{Points: r.Points, Verdict: r.Verdict.String(), Diverged: r.Diverged, Steps: r.Steps, Viol: viol, PrunedAt: -1}
	if r.Diverged != "" {
		return x
	}
	if r.Verdict != vsched.Completed {
		x.Viol = append(x.Viol, fmt.Sprintf("file-number allocator: execution ended with %s: %v", r.Verdict, r.PanicValue))
		x.Blocked = r.Blocked
	}
	x.Outcome = r.Verdict.String()
	return x
}

func init() {
	register(&Check{
		ID:    "C09",
		Level: "exploration",
		Worker: func(task []byte) []byte {
			// two task shapes share the worker: fault plans and schedule subtrees
			var probe struct {
				Scenario string `json:"scenario"`
			}
			json.Unmarshal(task, &probe)
			if probe.Scenario != "" {
				return dfsWorker(map[string]func(json.RawMessage) explore.RunFunc{"conc": concScenario, "alloc": func(params json.RawMessage) explore.RunFunc {
					var p c09Alloc
					json.Unmarshal(params, &p)
					return func(prefix []int) *explore.Exec { return c09AllocExec(&p, prefix) }
				}})(task)
			}
			return faultWorker(task)
		},
		Main: func(c *explore.Ctx) {
			quick := c.Tier == "quick"
			cfgs := []string{"flushy/bytewise", "rot/bytewise", "bigbatch/bytewise"}
			hist := append([][]string{}, c04Long[:3]...)
			depth := 2
			if !quick {
				depth = 3
				hist = append([][]string{}, c04Long...)
			}
			for _, s := range genSeqs(c08Alpha, depth) {
				if len(s) > 0 {
					hist = append(hist, s)
				}
			}
			rd, rmax := 5, 4
			if !quick {
				rd, rmax = 6, 10
			}
			extra := richHistories(c, "C09", rd, rmax)
			for _, h := range c08Throttle {
				extra = append(extra, cfgHist{"throttle/bytewise", h})
			}
			runFaultCheck(c, "C09", cfgs, hist, quick, false, extra...)
			runConcChecks(c, "C09", c09Drivers(), 2, 0)
			runConcChecks(c, "C09", c09FaultDrivers(), 1, 0)
			// the file-number allocator on its own (all interleavings: the scripts are a handful of
			// atomic operations)
			{
				pool := explore.NewPool(0, "worker", "C09")
				per := map[string]any{}
				for _, a := range []c09Alloc{
					{Name: "alloc-reuse-vs-alloc", Scripts: [][]string{{"alloc", "reuse"}, {"alloc"}}, Bound: 64},
					{Name: "alloc-reuse-vs-alloc-reuse", Scripts: [][]string{{"alloc", "reuse", "alloc"}, {"alloc", "reuse"}}, Bound: 4},
					{Name: "reuse-old-vs-alloc-vs-mark", Scripts: [][]string{{"alloc", "alloc", "reuse-old", "reuse"}, {"alloc"}, {"mark", "alloc"}}, Bound: 3},
				} {
					st := explore.RunDFS(c, pool, "alloc", a, a.Bound, 0)
					c.Add("evaluations", st.Execs)
					per[a.Name] = map[string]any{"scripts": a.Scripts, "bound": a.Bound, "executions": st.Execs, "exhaustive": !st.Capped, "max_choice_points": st.MaxPoints}
					fmt.Printf("  file-numbers %-28s execs=%d capped=%v maxpoints=%d\n", a.Name, st.Execs, st.Capped, st.MaxPoints)
					if st.Capped {
						c.SetExhaustive(false)
					}
					for _, v := range st.Viols {
						c.Report(&explore.Violation{Property: "C09", Sig: map[string]string{"check": "filenum", "driver": a.Name, "effect": strings.Join(v.Viol, "; "), "verdict": v.Verdict},
							Detail: map[string]any{"task": explore.DFSTask{Scenario: "alloc", Params: explore.MustJSON(a), Prefix: v.Choices, MaxExecs: 1}, "violation": v}})
					}
				}
				pool.Close()
				c.Coverage["file_number_allocator"] = per
			}
			c.Coverage["rule"] = "(a) per history x single-fault plan (as C08) the history is followed by a probe suite whose every call must return; (b) DFS over schedules with deviation bounding of clients racing Close / SetReadOnly / transactions / CompactRange; (c) the same with one storage fault armed during the window (journal write, manifest sync x3, table create, table write, manifest write); verdict per execution from the scheduler: deadlock (nobody enabled, no timer), hang (virtual clock passes 1h with a client call outstanding), livelock (step budget); distinct_nontrivial = fault plans whose error surfaced + distinct concurrent histories"
			c.Assume = []string{"virtual time: timers fire only when no goroutine is enabled; horizon one virtual hour", "bounded schedules (deviation bound per driver in per_driver)"}
		},
	})
}
