package checks

import (
	"encoding/json"
	"fmt"
	"os"

	"verif/explore"
)

// Replay re-executes a recorded violation file in-process and prints what it observes.
func Replay(path string) int {
	b, err := os.ReadFile(path)
	if err != nil {
		fmt.Fprintln(os.Stderr, err)
		return 2
	}
	var v struct {
		Property string `json:"property"`
		Detail   struct {
			Task json.RawMessage `json:"task"`
		} `json:"detail"`
	}
	if err := json.Unmarshal(b, &v); err != nil {
		fmt.Fprintln(os.Stderr, err)
		return 2
	}
	ck := Registry[v.Property]
	if ck == nil {
		fmt.Fprintln(os.Stderr, "unknown property", v.Property)
		return 2
	}
	res := ck.Worker(v.Detail.Task)
	fmt.Printf("%s\n", res)
	var r struct {
		Viol  []string          `json:"viol"`
		Hang  []string          `json:"hang"`
		Viols []json.RawMessage `json:"viols"`
	}
	json.Unmarshal(res, &r)
	if len(r.Viol) > 0 || len(r.Viols) > 0 || len(r.Hang) > 0 {
		fmt.Printf("VIOLATION property=%s replay=%s\n", v.Property, path)
		return 1
	}
	return 0
}

var _ = explore.Root
