#!/bin/bash
# files of package leveldb that get statement-granularity scheduling points in the C05/C10 builds:
# the DB-level state, write path, snapshots, iterators, transactions and the session (reference
# loop, file numbers). Left out on purpose: version.go / table.go / db_util.go (they iterate over Go
# maps and sort the result, so the NUMBER of statements executed varies from run to run although the
# behaviour does not - replay by choice index needs it fixed) and the pure encoders.
# leveldb/table/reader.go: block and filter handles released too early (buffer-pool reuse).
echo "leveldb/db.go,leveldb/db_write.go,leveldb/db_state.go,leveldb/db_snapshot.go,leveldb/db_iter.go,leveldb/db_transaction.go,leveldb/db_compaction.go,leveldb/session.go,leveldb/session_util.go,leveldb/session_compaction.go,leveldb/table/reader.go"
