package findings

import (
	"fmt"
	"strings"
	"sync"
	"testing"
	"time"

	"github.com/syndtr/goleveldb/leveldb"
	"github.com/syndtr/goleveldb/leveldb/storage"
	"github.com/syndtr/goleveldb/leveldb/util"
)

// D9 (C20): with the buffer pool disabled, the value returned by Get aliased the table block
// held in the block cache; modifying it (which the documentation allows) changed what later
// Gets returned.
func TestD9_GetResultAliasesBlockCache(t *testing.T) {
	o := flushy()
	o.DisableBufferPool = true
	db, err := leveldb.Open(storage.NewMemStorage(), o)
	if err != nil {
		t.Fatal(err)
	}
	defer db.Close()
	if err := db.Put([]byte("a"), []byte("v1"), nil); err != nil {
		t.Fatal(err)
	}
	if err := db.CompactRange(util.Range{}); err != nil { // the value now lives in a table
		t.Fatal(err)
	}
	v, err := db.Get([]byte("a"), nil)
	if err != nil {
		t.Fatal(err)
	}
	for i := range v {
		v[i] = 0xEE // "it is safe to modify the contents of the returned slice"
	}
	mustGet(t, db, "a", "v1")
}

// gateW blocks the n-th Write to a manifest file until opened.
type gateW struct {
	storage.Storage
	mu     sync.Mutex
	count  int
	block  int
	opened chan struct{}
}

type gateWWriter struct {
	storage.Writer
	g *gateW
}

func (w *gateWWriter) Write(p []byte) (int, error) {
	w.g.mu.Lock()
	w.g.count++
	wait := w.g.block > 0 && w.g.count == w.g.block
	w.g.mu.Unlock()
	if wait {
		<-w.g.opened
	}
	return w.Writer.Write(p)
}

func (g *gateW) Create(fd storage.FileDesc) (storage.Writer, error) {
	w, err := g.Storage.Create(fd)
	if err != nil || fd.Type != storage.TypeManifest {
		return w, err
	}
	return &gateWWriter{w, g}, nil
}

func tableFiles(stor storage.Storage) string {
	fds, _ := stor.List(storage.TypeTable)
	var s []string
	for _, fd := range fds {
		s = append(s, fmt.Sprint(fd.Num))
	}
	return strings.Join(s, ",")
}

func waitFor(t *testing.T, what string, cond func() bool) {
	t.Helper()
	for i := 0; i < 500; i++ {
		if cond() {
			return
		}
		time.Sleep(10 * time.Millisecond)
	}
	t.Fatalf("timed out waiting for %s", what)
}

// D14 (C01/C20): the number of a removed table was handed out again while blocks of the
// removed table were still in the block cache (which is keyed by file number): reads of the
// new table were served blocks of the old one, and an acknowledged write was invisible.
func TestD14_ReusedFileNumberServesStaleBlocks(t *testing.T) {
	mem := storage.NewMemStorage()
	g := &gateW{Storage: mem, opened: make(chan struct{})}
	db, err := leveldb.Open(g, flushy())
	if err != nil {
		t.Fatal(err)
	}
	defer db.Close()
	if err := db.Put([]byte("b"), []byte("v1"), nil); err != nil {
		t.Fatal(err)
	}
	// transaction path (batch larger than the 1-byte write buffer): tables 4 (a) and 5 (tombstone of b)
	g.mu.Lock()
	g.block = g.count + 3 // flush commit, transaction commit, then: the level-0 compaction's commit waits
	g.mu.Unlock()
	b := new(leveldb.Batch)
	b.Put([]byte("a"), []byte("v2"))
	b.Delete([]byte("b"))
	if err := db.Write(b, nil); err != nil {
		t.Fatal(err)
	}
	// read everything while the compaction is still pending: fills the block cache
	mustGet(t, db, "a", "v2")
	if _, err := db.Get([]byte("b"), nil); err != leveldb.ErrNotFound {
		t.Fatalf("Get(b): %v", err)
	}
	it := db.NewIterator(nil, nil)
	for it.Next() {
	}
	it.Release()
	before := tableFiles(mem)
	close(g.opened) // let the compaction commit: it drops b entirely and removes its input tables
	waitFor(t, "the compaction to remove its inputs", func() bool { return tableFiles(mem) != before })
	time.Sleep(50 * time.Millisecond)
	b.Reset()
	b.Put([]byte("a"), []byte("v3"))
	b.Delete([]byte("b"))
	if err := db.Write(b, nil); err != nil {
		t.Fatal(err)
	}
	mustGet(t, db, "a", "v3")
}

// D15 (C07): the first commit after Open creates the manifest from the commit's own record;
// the record's new tables were added to it twice, so the reference counter never dropped to
// zero and the table flushed during recovery was never deleted (until the next restart).
func TestD15_RecoveredTableNeverDeleted(t *testing.T) {
	mem := storage.NewMemStorage()
	o := flushy()
	o.WriteBuffer = 1 << 20
	db, err := leveldb.Open(mem, o)
	if err != nil {
		t.Fatal(err)
	}
	if err := db.Put([]byte("a"), []byte("v1"), nil); err != nil {
		t.Fatal(err)
	}
	db.Close()
	db, err = leveldb.Open(mem, o) // recovery flushes the journal into a table
	if err != nil {
		t.Fatal(err)
	}
	defer db.Close()
	flushed := tableFiles(mem)
	if flushed == "" {
		t.Fatal("expected recovery to flush a table")
	}
	if err := db.Put([]byte("a"), []byte("v2"), nil); err != nil {
		t.Fatal(err)
	}
	if err := db.CompactRange(util.Range{}); err != nil { // rewrites everything into a new table
		t.Fatal(err)
	}
	waitFor(t, "obsolete table "+flushed+" to be deleted", func() bool {
		for _, n := range strings.Split(tableFiles(mem), ",") {
			if n == flushed {
				return false
			}
		}
		return true
	})
}
