#!/bin/bash
# usage: check.sh <property-id> [quick|thorough]   |   check.sh replay <file>
# Instruments /repo's *current* working tree into a scratch dir, builds the harness against
# it, runs the check and removes the scratch dir. Exit 0 held / 1 violation / 2 machinery error.
ROOT="$(cd "$(dirname "$0")/.." && pwd)"
export VERIF_ROOT="$ROOT"
ID="$1"; TIER="${2:-quick}"
TMP="$(mktemp -d /tmp/verif.XXXXXX)"
trap 'rm -rf "$TMP"' EXIT
EXTRA=()
if [ "$ID" = "C14" ]; then EXTRA=(-stmt leveldb/memdb); fi
if [ "$ID" = "C17" ]; then EXTRA=(-stmt leveldb/cache); fi
case "$ID" in C05|C09|C10|C18) EXTRA=(-stmt "$("$ROOT/scripts/stmtfiles.sh")") ;; esac
if ! "$ROOT/scripts/build.sh" "$TMP" "${EXTRA[@]}" >"$TMP/build.log" 2>&1; then
  echo "BUILD-ERROR (machinery or source does not compile after instrumentation):"
  tail -40 "$TMP/build.log"
  exit 2
fi
if [ "$ID" = "replay" ]; then
  "$TMP/verif" replay "$2"
  exit $?
fi
# Non-deciding audit for the schedule-search checks: the same client programs on real
# goroutines against the un-instrumented code under the race detector (the exploration is
# complete only for data-race-free code).
case "$ID" in C05|C09|C10|C14|C17|C18)
  ITER=60; [ "$TIER" = thorough ] && ITER=600
  ENG="$ROOT/engine"; [ -d "$TMP/engine" ] && ENG="$TMP/engine"
  if (cd "$ENG" && GOFLAGS=-mod=mod GOPROXY=off GOSUMDB=off GOTOOLCHAIN=local go build -race -o "$TMP/racepass" ./cmd/racepass) >"$TMP/race-build.log" 2>&1; then
    RA="$(GORACE="halt_on_error=1 exitcode=66" timeout 300 "$TMP/racepass" $ITER 2>"$TMP/race.log" | tail -1)"
    RC=$?
    if grep -q "DATA RACE" "$TMP/race.log"; then
      echo "RACE-AUDIT: the race detector fired in the free-running pass (schedule-point exploration assumes race freedom); report kept in evidence/$ID.race.txt"
      cp "$TMP/race.log" "$ROOT/evidence/$ID.race.txt" 2>/dev/null
      RA="race-audit: DATA RACE reported, see evidence/$ID.race.txt"
    fi
    export VERIF_RACE_AUDIT="${RA:-race-audit: did not complete}"
  else
    export VERIF_RACE_AUDIT="race-audit: build failed"
  fi ;;
esac
"$TMP/verif" run "$ID" "$TIER"
exit $?
