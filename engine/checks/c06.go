package checks

import (
	"verif/explore"
)

// C06 — the live table set is a well-formed LSM tree. A monitor hooked into the scheduler
// validates EVERY version the moment it becomes current (not only at operation boundaries):
// files exist with the recorded size, entries strictly increasing, recorded smallest/largest =
// first/last entry, levels >= 1 ordered and disjoint in user keys, and for every user key
// shallower levels strictly newer than deeper ones. It runs inside a breadth-first search over
// operation sequences (writes, batches, transactions, manual/automatic compactions, reopen).

var c06Alpha = []string{"put:a", "put:b", "put:c", "del:a", "del:b", "putL:c", "b1", "b2", "trx:+a,+c,-b", "cr", "crb", "q", "re"}

func init() {
	register(&Check{
		ID:     "C06",
		Level:  "model_checking",
		Worker: seqWorker(nil),
		Main: func(c *explore.Ctx) {
			var specs []seqSpec
			add := func(cfg string, alpha []string, d int, probes []string) {
				specs = append(specs, seqSpec{Cfg: cfg, Alpha: alpha, Depth: d, Checks: "db", Mode: "lsm", Probes: probes})
			}
			d1, d2 := 4, 3
			if c.Tier == "thorough" {
				d1, d2 = 5, 5
			}
			add("flushy/bytewise", c06Alpha, d1, nil)
			add("deep/bytewise", c06Alpha, d1, nil)
			add("wide/bytewise", c06Alpha, d1, nil)
			add("rot/bytewise", c06Alpha, d2, nil)
			add("bigbatch/bytewise", c06Alpha, d2, nil)
			for _, k := range []string{"shortlex", "revtail", "xormap", "lazy"} {
				a, p := cmpAlpha(k)
				add("flushy/"+k, a, d1, p)
				add("deep/"+k, a, d2, p)
			}
			runSpecs(c, "C06", specs,
				"breadth-first search over operation sequences (as C01, plus transactions); a scheduler step hook validates every version at the instant session.stVersion changes, by reading every live table back from storage with table.NewReader; x_versions_checked / x_tables_read_back count the monitor's work",
				[]string{"3-key alphabets per comparer; layouts forced by tiny option values", "versions installed by Recover are checked in C19, versions after a crash in C04"})
		},
	})
}
