// Package vsched is a cooperative scheduler that owns every goroutine and every
// synchronisation operation of the (rewritten) code under test. Exactly one
// managed goroutine runs at a time; at each scheduling point the scheduler picks
// which enabled goroutine continues. The picks are recorded as a choice list so
// an execution can be replayed exactly and so an explorer can enumerate
// alternatives.
package vsched

import (
	"fmt"
	"runtime"
	"sort"
	"strings"
	"sync/atomic"
	"unsafe"
)

// OpKind names the operation a goroutine is about to perform at a point.
type OpKind uint8

const (
	OpNone OpKind = iota
	OpResume
	OpStart
	OpLock
	OpRLock
	OpLockAnnounce
	OpUnlock
	OpAtomic
	OpChan
	OpSelect
	OpWait
	OpOnce
	OpSleep
	OpYield
	OpQuiesce
	OpPool
	OpStmt
	OpStorage
)

var opNames = [...]string{"none", "resume", "start", "lock", "rlock", "lock-announce", "unlock", "atomic", "chan", "select", "wgwait", "once", "sleep", "yield", "quiesce", "pool", "stmt", "storage"}

func (k OpKind) String() string { return opNames[k] }

// Verdict of one execution.
type Verdict int

const (
	Completed Verdict = iota // main function returned
	Deadlock                 // nobody enabled, no timer pending, main not finished
	Hang                     // virtual clock passed the horizon with main unfinished
	Livelock                 // step budget exhausted
	Panicked                 // a managed goroutine panicked
	Aborted                  // Abort() called by the harness
	Pruned                   // ended early: the state was already visited with at least this budget
)

func (v Verdict) String() string {
	return [...]string{"completed", "deadlock", "hang", "livelock", "panic", "aborted", "pruned"}[v]
}

// ChoicePoint records one recorded decision.
type ChoicePoint struct {
	N          int  // number of options
	Chosen     int  // option taken
	CurEnabled bool // running goroutine was among the options (option 0)
	SelCase    bool // a select-case (or other data) choice rather than a goroutine choice
	Cost       int  // deviation cost of picking a non-zero option here
}

type pending struct {
	kind  OpKind
	obj   uint64
	read  bool        // the operation only reads the object (atomic loads)
	ready func() bool // nil: always ready
	where string
}

// G is a managed goroutine.
type G struct {
	id       int
	name     string
	wake     chan struct{}
	doneCh   chan struct{}
	pend     pending
	done     bool
	exiting  bool
	started  bool
	selIdx   int // result delivered by a rendezvous partner; -2 when none
	cases    []SelCase
	deadline int64 // sleep deadline
	fn       func()
	steps    int
	spawned  int
	// happens-before fingerprinting (Options.HB)
	nameH  uint64
	chain  uint64
	objCtr uint64
}

func (g *G) ID() int { return g.id }

// Options for one execution.
type Options struct {
	Prefix         []int // choices to replay; afterwards default (0)
	Horizon        int64 // virtual ns; 0 = 1 virtual hour
	MaxSteps       int   // 0 = 2e6
	ArmedAtStart   bool
	StepHook       func() // called between steps while armed-or-not (no goroutine running)
	NoUnlockPoints bool
	RecordTrace    bool
	// ReverseOthers: among the goroutines other than the running one, the default order is
	// newest first instead of oldest first (a second base schedule for the bounded search).
	ReverseOthers bool
	// HB: maintain happens-before fingerprints (hb.go); Visited, when set, is consulted at
	// every choice point beyond the prefix: returning true ends the execution as Pruned.
	HB      bool
	Visited func(key uint64) bool
}

// Result of one execution.
type Result struct {
	Verdict    Verdict
	Points     []ChoicePoint
	Steps      int
	PanicValue any
	PanicStack string
	Blocked    []string // goroutine table at failure
	Diverged   string   // non-empty: replay prefix did not fit (nondeterminism)
	TraceHash  uint64
	VTime      int64
	HBFinal    uint64 // happens-before fingerprint of the whole execution (Options.HB)
	PrunedAt   int    // >= 0: the execution was ended at this choice index (state already visited)
}

// Sched is one execution's scheduler.
type Sched struct {
	opts     Options
	gs       []*G
	cur      *G
	armed    bool
	aborting bool
	verdict  Verdict
	finished chan struct{}
	points   []ChoicePoint
	nchoice  int
	steps    int
	now      int64
	timers   []*Timer
	panicV   any
	panicS   string
	blocked  []string
	diverged string
	thash    uint64
	objSeq   uint64
	mainDone bool
	inHook   bool
	seqTimer int
	hbSum    uint64
	hbUniq   uint64
	objs     map[uint64]*objState
	prunedAt int
}

// DefaultHB / DefaultVisited are applied to every Run of this process (set by the schedule
// explorer around the executions of a search that uses happens-before pruning).
var (
	DefaultHB      bool
	DefaultVisited func(key uint64) bool
)

// S is the active scheduler (nil outside Run).
var S *Sched

// Run executes main under a fresh scheduler and returns when the execution is over
// and every managed goroutine has exited.
func Run(opts Options, main func()) *Result {
	if S != nil {
		panic("vsched: nested Run")
	}
	atomic.AddUint64(&Beat, 1)
	atomic.StoreInt32(&InRun, 1)
	defer atomic.StoreInt32(&InRun, 0)
	if DefaultHB {
		opts.HB = true
		opts.Visited = DefaultVisited
	}
	if opts.Horizon == 0 {
		opts.Horizon = 3600 * 1e9
	}
	if opts.MaxSteps == 0 {
		opts.MaxSteps = 2000000
	}
	s := &Sched{opts: opts, finished: make(chan struct{}, 1), armed: opts.ArmedAtStart, prunedAt: -1}
	S = s
	g0 := s.newG(main, "main")
	s.cur = g0
	g0.started = true
	go s.body(g0)
	g0.wake <- struct{}{}
	<-s.finished
	// reap
	s.aborting = true
	for i := 0; i < len(s.gs); i++ {
		g := s.gs[i]
		if g.done {
			continue
		}
		s.cur = g
		g.wake <- struct{}{}
		<-g.doneCh
	}
	S = nil
	return &Result{Verdict: s.verdict, Points: s.points, Steps: s.steps, PanicValue: s.panicV, PanicStack: s.panicS,
		Blocked: s.blocked, Diverged: s.diverged, TraceHash: s.thash, VTime: s.now, HBFinal: s.hbSum, PrunedAt: s.prunedAt}
}

func (s *Sched) newG(fn func(), name string) *G {
	g := &G{id: len(s.gs), name: name, wake: make(chan struct{}, 1), doneCh: make(chan struct{}), fn: fn, selIdx: -2}
	g.pend = pending{kind: OpStart}
	s.gs = append(s.gs, g)
	s.hbInitG(g, s.cur)
	return g
}

func (s *Sched) body(g *G) {
	normal := false
	defer func() {
		if !normal && !s.aborting {
			if r := recover(); r != nil {
				buf := make([]byte, 16384)
				buf = buf[:runtime.Stack(buf, false)]
				s.panicV = r
				s.panicS = string(buf)
				s.fail(Panicked)
			}
		} else if !normal {
			// aborting: swallow panics raised by half-torn-down code
			_ = recover()
		}
		g.done = true
		g.pend = pending{}
		if s.aborting {
			close(g.doneCh)
			return
		}
		close(g.doneCh)
		if g.id == 0 {
			s.mainDone = true
			s.verdict = Completed
			s.aborting = true
			s.finished <- struct{}{}
			return
		}
		s.dispatch(nil)
	}()
	<-g.wake
	if s.aborting {
		return
	}
	g.pend = pending{}
	g.fn()
	normal = true
}

// fail ends the execution with verdict v; called by the running goroutine or by dispatch.
func (s *Sched) fail(v Verdict) {
	if s.aborting {
		return
	}
	s.verdict = v
	s.blocked = s.table()
	s.aborting = true
	s.finished <- struct{}{}
}

func (s *Sched) table() []string {
	var out []string
	for _, g := range s.gs {
		if g.done {
			continue
		}
		st := "blocked"
		if g == s.cur {
			st = "running"
		} else if g.pend.ready == nil || g.pend.ready() {
			st = "runnable"
		}
		out = append(out, fmt.Sprintf("g%d(%s) %s %s obj=%d at %s", g.id, g.name, st, g.pend.kind, g.pend.obj, g.pend.where))
	}
	return out
}

// Go starts fn as a managed goroutine.
func Go(fn func()) {
	s := S
	if s == nil {
		panic("vsched.Go outside Run")
	}
	if s.aborting {
		return
	}
	parent := s.cur
	parent.spawned++
	g := s.newG(fn, fmt.Sprintf("%s.%d", parent.name, parent.spawned))
	g.started = true
	go s.body(g)
}

// GoNamed is Go with an explicit name (harness client goroutines).
func GoNamed(name string, fn func()) *G {
	s := S
	if s.aborting {
		return nil
	}
	g := s.newG(fn, name)
	g.started = true
	go s.body(g)
	return g
}

// Cur returns the id of the running goroutine (0 outside Run).
func Cur() int {
	if S == nil || S.cur == nil {
		return 0
	}
	return S.cur.id
}

func CurName() string {
	if S == nil || S.cur == nil {
		return "main"
	}
	return S.cur.name
}

// Active reports whether a scheduler is running.
func Active() bool { return S != nil }

// Aborting reports whether the execution is being torn down.
func Aborting() bool { return S != nil && S.aborting }

// Arm / Disarm delimit the window in which choices are recorded and may deviate.
func Arm() {
	if S != nil {
		S.armed = true
	}
}
func Disarm() {
	if S != nil {
		S.armed = false
	}
}

// NewObj hands out deterministic object ids (creation order).
func NewObj() uint64 {
	if S == nil {
		return 0
	}
	S.objSeq++
	return S.objSeq
}

func caller(skip int) string {
	var pcs [6]uintptr
	n := runtime.Callers(skip+2, pcs[:])
	fr := runtime.CallersFrames(pcs[:n])
	var parts []string
	for {
		f, more := fr.Next()
		fn := f.Function
		if !strings.Contains(fn, "verif/v") {
			if i := strings.LastIndex(fn, "/"); i >= 0 {
				fn = fn[i+1:]
			}
			parts = append(parts, fmt.Sprintf("%s:%d", fn, f.Line))
			if len(parts) >= 2 {
				break
			}
		}
		if !more {
			break
		}
	}
	return strings.Join(parts, "<")
}

// WantWhere makes points record their call site (slow; diagnostics and idle detection).
var WantWhere = false

// Beat counts scheduling points (and executions) of this process; InRun is 1 while an
// execution is in progress. A watchdog outside the scheduler (explore.ServeWorker) uses them
// to recognise a goroutine that burns CPU without ever reaching a scheduling point.
var (
	Beat  uint64
	InRun int32
)

// Point is a scheduling point: the running goroutine announces the operation it is about
// to perform and yields the decision to the scheduler. It returns false when the execution
// is being torn down (the caller must then return a zero result without blocking).
func Point(kind OpKind, obj uint64, ready func() bool) bool {
	return point(kind, obj, ready, false)
}

// PointR is Point for an operation that only reads its object.
func PointR(kind OpKind, obj uint64, ready func() bool) bool {
	return point(kind, obj, ready, true)
}

func point(kind OpKind, obj uint64, ready func() bool, read bool) bool {
	s := S
	atomic.AddUint64(&Beat, 1)
	if s == nil {
		if ready != nil && !ready() {
			panic("vsched: blocking operation outside Run: " + kind.String())
		}
		return true
	}
	g := s.cur
	if s.inHook {
		// monitor code running between steps: operations complete immediately
		if ready != nil && !ready() {
			panic("vsched: step hook would block on " + kind.String())
		}
		return true
	}
	if s.aborting {
		if g.exiting {
			return false
		}
		g.exiting = true
		runtime.Goexit()
	}
	g.pend = pending{kind: kind, obj: obj, ready: ready, read: read}
	if WantWhere {
		g.pend.where = caller(1)
	}
	s.dispatch(g)
	// running again
	if s.aborting {
		if g.exiting {
			return false
		}
		g.exiting = true
		runtime.Goexit()
	}
	return true
}

func (s *Sched) enabled(g *G) bool {
	if g.done {
		return false
	}
	p := &g.pend
	switch p.kind {
	case OpNone:
		return false
	case OpQuiesce, OpSleep:
		return false // handled specially
	}
	return p.ready == nil || p.ready()
}

// dispatch decides who runs next. g is the goroutine that just reached a point (nil if it
// exited). If another goroutine is chosen, g parks until it is chosen again.
func (s *Sched) dispatch(g *G) {
	for {
		s.steps++
		if s.steps > s.opts.MaxSteps {
			s.failFrom(g, Livelock)
			return
		}
		if s.opts.StepHook != nil {
			s.inHook = true
			s.opts.StepHook()
			s.inHook = false
			if s.aborting {
				s.exitFrom(g)
				return
			}
		}
		var en []*G
		curEn := false
		if g != nil && s.enabled(g) {
			en = append(en, g)
			curEn = true
		}
		if s.opts.ReverseOthers && s.armed {
			for i := len(s.gs) - 1; i >= 0; i-- {
				if h := s.gs[i]; h != g && s.enabled(h) {
					en = append(en, h)
				}
			}
		} else {
			for _, h := range s.gs {
				if h != g && s.enabled(h) {
					en = append(en, h)
				}
			}
		}
		if len(en) == 0 {
			// quiesce waiters first
			var q *G
			for _, h := range s.gs {
				if !h.done && h.pend.kind == OpQuiesce {
					q = h
					break
				}
			}
			if q != nil {
				q.pend = pending{kind: OpResume}
				continue
			}
			switch s.advanceClock() {
			case 1:
				continue
			case 2:
				s.failFrom(g, Hang)
				return
			}
			s.failFrom(g, Deadlock)
			return
		}
		idx := 0
		if len(en) > 1 && s.armed {
			cost := 0
			if curEn {
				cost = 1
			}
			idx = s.choose(len(en), curEn, false, cost)
			if s.aborting {
				s.exitFrom(g)
				return
			}
		}
		next := en[idx]
		next.steps++
		if s.opts.HB {
			s.hbPoint(next)
		}
		if s.opts.RecordTrace {
			s.thash = (s.thash ^ uint64(next.id+1)) * 1099511628211
			s.thash = (s.thash ^ uint64(next.pend.kind)<<8 ^ next.pend.obj<<16) * 1099511628211
		}
		if next == g {
			return
		}
		s.cur = next
		next.wake <- struct{}{}
		if g != nil {
			<-g.wake
		}
		return
	}
}

func (s *Sched) failFrom(g *G, v Verdict) {
	s.fail(v)
	s.exitFrom(g)
}

// exitFrom terminates the calling goroutine g (if any) after the execution was failed.
func (s *Sched) exitFrom(g *G) {
	if g != nil && !g.exiting {
		g.exiting = true
		runtime.Goexit()
	}
}

// choose records a decision among n options; returns the option.
func (s *Sched) choose(n int, curEnabled, selCase bool, cost int) int {
	i := s.nchoice
	s.nchoice++
	c := 0
	if i < len(s.opts.Prefix) {
		c = s.opts.Prefix[i]
		if c >= n || c < 0 {
			s.diverged = fmt.Sprintf("choice %d: prefix wants option %d of %d", i, c, n)
			s.points = append(s.points, ChoicePoint{N: n, Chosen: 0, CurEnabled: curEnabled, SelCase: selCase, Cost: cost})
			s.fail(Aborted)
			return 0
		}
	}
	if s.opts.Visited != nil && i >= len(s.opts.Prefix) && !selCase && s.prunedAt < 0 {
		if s.opts.Visited(s.hbKey(s.cur)) {
			s.prunedAt = i
			s.fail(Pruned)
			return 0
		}
	}
	s.points = append(s.points, ChoicePoint{N: n, Chosen: c, CurEnabled: curEnabled, SelCase: selCase, Cost: cost})
	if s.opts.HB && selCase && s.cur != nil {
		s.cur.setChain(s, mix(s.cur.chain, uint64(c)+0x5e1))
	}
	return c
}

// Choose lets shims and harness code ask for a recorded data choice (e.g. which ready
// select case). Unarmed or outside Run it returns 0.
func Choose(n int) int {
	s := S
	if s == nil || !s.armed || n <= 1 || s.aborting {
		return 0
	}
	return s.choose(n, false, true, 1)
}

// advanceClock jumps the virtual clock to the earliest timer/sleeper deadline and fires it.
// Returns 0 if nothing is pending, 1 if something fired, 2 if the horizon is passed.
func (s *Sched) advanceClock() int {
	var best int64 = -1
	for _, h := range s.gs {
		if !h.done && h.pend.kind == OpSleep {
			if best < 0 || h.deadline < best {
				best = h.deadline
			}
		}
	}
	for _, t := range s.timers {
		if t.active && (best < 0 || t.when < best) {
			best = t.when
		}
	}
	if best < 0 {
		return 0
	}
	if best > s.opts.Horizon {
		return 2
	}
	if best > s.now {
		s.now = best
	}
	if s.opts.HB {
		// a clock jump (sleepers woken, timers fired from scheduler context) is not modelled
		// as events: make every later fingerprint of this execution unique
		s.poison(nil)
		s.hbObj(s.gs[0], objClock).lastW = s.hbUniq ^ uint64(s.steps)<<20
	}
	for _, h := range s.gs {
		if !h.done && h.pend.kind == OpSleep && h.deadline <= s.now {
			h.pend = pending{kind: OpResume}
		}
	}
	// fire timers in (when, seq) order
	var due []*Timer
	for _, t := range s.timers {
		if t.active && t.when <= s.now {
			due = append(due, t)
		}
	}
	sort.Slice(due, func(i, j int) bool {
		if due[i].when != due[j].when {
			return due[i].when < due[j].when
		}
		return due[i].seq < due[j].seq
	})
	for _, t := range due {
		t.fire(s)
	}
	s.compactTimers()
	return 1
}

func (s *Sched) compactTimers() {
	j := 0
	for _, t := range s.timers {
		if t.active {
			s.timers[j] = t
			j++
		}
	}
	for k := j; k < len(s.timers); k++ {
		s.timers[k] = nil
	}
	s.timers = s.timers[:j]
}

// Now returns the virtual clock in ns.
func Now() int64 {
	if S == nil {
		return 0
	}
	Event(OpYield, objClock, false)
	return S.now
}

// Sleep parks the running goroutine until the virtual clock has advanced by d. The clock
// only moves when nobody is enabled.
func Sleep(d int64) {
	s := S
	if s == nil {
		return
	}
	if d <= 0 {
		Point(OpYield, 0, nil)
		return
	}
	if s.aborting {
		Point(OpSleep, 0, nil)
		return
	}
	g := s.cur
	g.deadline = s.now + d
	Point(OpSleep, 0, nil)
}

// Quiesce parks the running goroutine until no other goroutine is enabled, without
// advancing the clock.
func Quiesce() {
	if S == nil {
		return
	}
	Point(OpQuiesce, 0, nil)
}

// Yield is a plain scheduling point.
func Yield() { Point(OpYield, 0, nil) }

// Fail lets harness code end the execution (e.g. oracle violation found mid-run).
func Abort() {
	s := S
	if s == nil {
		return
	}
	s.failFrom(s.cur, Aborted)
}

// Goroutines returns a snapshot table for diagnostics.
func Table() []string {
	if S == nil {
		return nil
	}
	return S.table()
}

// OthersIdle reports whether every goroutine other than the running one is blocked.
func OthersIdle() bool {
	s := S
	if s == nil {
		return true
	}
	for _, h := range s.gs {
		if h != s.cur && s.enabled(h) {
			return false
		}
	}
	return true
}

// Steps returns the number of scheduling steps so far.
func Steps() int {
	if S == nil {
		return 0
	}
	return S.steps
}

// UnlockPoints makes unlock operations scheduling points too (releases are left movers,
// so this is not needed for coverage; kept as a switch for cross-checking).
var UnlockPoints = false

// AddrID maps an address to a small id (diagnostics only; not stable across executions).
func AddrID(p unsafe.Pointer) uint64 { return uint64(uintptr(p)) & 0xffffff }

// Stmt is the statement-granularity point inserted by vrewrite -stmt.
// StmtEnabled switches the statement-granularity points of a build made with vrewrite -stmt
// off (a check can then search the same binary at both granularities).
var StmtEnabled = true

func Stmt() {
	if S != nil && S.armed && StmtEnabled {
		Point(OpStmt, 0, nil)
	}
}

// TableKey is a canonical summary of what every other goroutine is waiting for: the sorted
// multiset of (operation kind, enabled) pairs, without names or object ids.
func TableKey() string {
	s := S
	if s == nil {
		return ""
	}
	var parts []string
	for _, g := range s.gs {
		if g.done || g == s.cur {
			continue
		}
		en := "b"
		if s.enabled(g) {
			en = "r"
		}
		parts = append(parts, g.pend.kind.String()+en)
	}
	sort.Strings(parts)
	return strings.Join(parts, ",")
}
