package checks

import (
	"bytes"
	"encoding/json"
	"fmt"
	"hash/fnv"
	"sort"
	"strings"

	"github.com/anishathalye/porcupine"
	"github.com/syndtr/goleveldb/leveldb"
	"github.com/syndtr/goleveldb/leveldb/opt"
	"github.com/syndtr/goleveldb/leveldb/storage"
	"github.com/syndtr/goleveldb/leveldb/util"
	"verif/explore"
	"verif/harness"
	"verif/model"
	"verif/vsched"
	"verif/vstor"
	"verif/vsync"
)

// concParams describes a closed concurrent driver: setup operations (default schedule),
// then client goroutines whose operations are interleaved under the explorer.
type concParams struct {
	Name    string     `json:"name"`
	Cfg     string     `json:"cfg"`
	Pre     []string   `json:"pre,omitempty"`
	Clients [][]string `json:"clients"`
	NoMerge bool       `json:"nomerge,omitempty"`
	// Expect selects extra oracles: "noerr" (every client op must succeed).
	Expect string `json:"expect,omitempty"`
	// QB/TB: deviation bound for the quick / thorough tier (0 = tier default).
	QB int `json:"qb,omitempty"`
	TB int `json:"tb,omitempty"`
	// Where: record call sites of blocked goroutines (diagnostic re-run of one schedule).
	Where bool `json:"where,omitempty"`
	// Faults are armed on the storage when the concurrent window opens.
	Faults []faultSpec `json:"faults,omitempty"`
	// Rev: second base schedule (vsched.Options.ReverseOthers) inside the concurrent window.
	Rev bool `json:"rev,omitempty"`
	// WQ/WT: search with the weighted cost model (preemption 2, choice at a blocking point 1)
	// and this budget in the quick / thorough tier, in addition to the plain bounds.
	WQ int `json:"wq,omitempty"`
	WT int `json:"wt,omitempty"`
	// SQ/ST: additionally search this driver with scheduling points before every statement of
	// package leveldb (binary built with vrewrite -stmt leveldb), at this bound (quick /
	// thorough); Stmt marks the variant that runs at that granularity.
	SQ   int  `json:"sq,omitempty"`
	ST   int  `json:"st,omitempty"`
	Stmt bool `json:"stmt,omitempty"`
	// CrashAll (C04): recover the durable image after every mutating storage operation of the
	// concurrent window, not only at sync acknowledgements and at the end.
	CrashAll bool `json:"crash_all,omitempty"`
	// RevSame: search the second base schedule (@rev) at the same bound as the first (default:
	// one lower).
	RevSame bool `json:"rev_same,omitempty"`
	// Residue (C07): after the window, once the background work has settled (virtual time), the
	// storage must hold nothing but the live tables, journal(s), manifest and CURRENT.
	Residue bool `json:"residue,omitempty"`
}

// linInput / linOutput are the porcupine operation payloads.
type linInput struct {
	Kind  string // write | get | view
	Batch model.Batch
	Keys  []string
}

type linOutput struct {
	Vals []string // per key: value or "\x00nf" for not found; for scans: k=v pairs
	Err  string
}

const notFound = "\x00nf"

type kvState string // canonical "k=v;k=v" sorted

func encodeState(m map[string]string) kvState {
	ks := make([]string, 0, len(m))
	for k := range m {
		ks = append(ks, k)
	}
	sort.Strings(ks)
	var b strings.Builder
	for _, k := range ks {
		b.WriteString(k)
		b.WriteByte(1)
		b.WriteString(m[k])
		b.WriteByte(2)
	}
	return kvState(b.String())
}

func decodeState(s kvState) map[string]string {
	m := map[string]string{}
	for _, f := range strings.Split(string(s), "\x02") {
		if f == "" {
			continue
		}
		i := strings.IndexByte(f, 1)
		m[f[:i]] = f[i+1:]
	}
	return m
}

func linModel(init map[string]string) porcupine.Model {
	apply := func(st map[string]string, b model.Batch) kvState {
		for _, o := range b {
			if o.Del {
				delete(st, o.K)
			} else {
				st[o.K] = o.V
			}
		}
		return encodeState(st)
	}
	nm := porcupine.NondeterministicModel{
		Init: func() []interface{} { return []interface{}{encodeState(init)} },
		Step: func(state, input, output interface{}) []interface{} {
			st := decodeState(state.(kvState))
			in := input.(linInput)
			out := output.(linOutput)
			switch in.Kind {
			case "write":
				if out.Err != "" {
					// a failed write is wholly applied or wholly absent: both admitted
					return []interface{}{state, apply(st, in.Batch)}
				}
				return []interface{}{apply(st, in.Batch)}
			case "get", "view":
				if out.Err != "" {
					return []interface{}{state}
				}
				for i, k := range in.Keys {
					v, ok := st[k]
					if !ok {
						v = notFound
					}
					if out.Vals[i] != v {
						return nil
					}
				}
				return []interface{}{state}
			case "has":
				if out.Err != "" {
					return []interface{}{state}
				}
				for i, k := range in.Keys {
					_, ok := st[k]
					if (out.Vals[i] == "1") != ok {
						return nil
					}
				}
				return []interface{}{state}
			case "scan":
				if out.Err != "" || string(encodeState(st)) == out.Vals[0] {
					return []interface{}{state}
				}
				return nil
			}
			return nil
		},
		Equal: func(a, b interface{}) bool { return a.(kvState) == b.(kvState) },
		DescribeOperation: func(input, output interface{}) string {
			return fmt.Sprintf("%+v -> %+v", input, output)
		},
	}
	return nm.ToModel()
}

// concRun is one execution's record.
type concRun struct {
	Hist    []porcupine.Operation
	Init    map[string]string
	Errs    []string
	Viol    []string
	Descr   []string
	TrVals  map[string]bool // values written through a transaction (never in the journal)
	Stor    *harness.World
	Faulted bool     // storage faults were armed during the window
	Dur     []durRec // writes acknowledged with the sync option (or committed transactions)
	P       *concParams
	WinPos  int // length of the storage-operation log when the concurrent window opened
	Aux     int // work counter of the extra oracle (crash images recovered)
}

// durRec: a write whose acknowledgement promises durability; AckPos is the length of the
// storage-operation log when the call returned.
type durRec struct {
	Batch  model.Batch
	Call   int64
	Return int64
	AckPos int
}

func getVal(v []byte, err error) (string, string) {
	if err == leveldb.ErrNotFound {
		return notFound, ""
	}
	if err != nil {
		return "", err.Error()
	}
	return canonVal(string(v)), ""
}

// canonVal keeps huge values out of the histories and the model: head + length.
func canonVal(s string) string {
	if len(s) > 256 {
		return fmt.Sprintf("%s..%d", s[:16], len(s))
	}
	return s
}

type reader interface {
	Get(key []byte, ro *opt.ReadOptions) ([]byte, error)
}

// runConc executes the driver once under the given choice prefix.
func runConc(p *concParams, prefix []int, extra func(w *harness.World, cr *concRun)) (*vsched.Result, *concRun) {
	cr := &concRun{Faulted: len(p.Faults) > 0, P: p}
	vsched.StmtEnabled = p.Stmt
	defer func() { vsched.StmtEnabled = true }()
	vsched.WantWhere = p.Where
	defer func() { vsched.WantWhere = false }()
	var clock int64
	// the history clock and the history itself are state shared by the clients: an event on
	// the harness object orders them in the happens-before fingerprints
	tick := func() int64 { vsched.Event(vsched.OpYield, vsched.ObjHarness, true); clock++; return clock }
	r := vsched.Run(vsched.Options{Prefix: prefix, ReverseOthers: p.Rev}, func() {
		w := harness.NewWorld(harness.Config{Name: p.Cfg})
		if p.NoMerge {
			w.OpenOpts = func(o *opt.Options) { o.NoWriteMerge = true }
		}
		cr.Stor = w
		if !w.MustOpen() {
			cr.Viol = append(cr.Viol, w.Viol...)
			return
		}
		for _, op := range p.Pre {
			w.Apply(op)
		}
		if w.Failed() {
			cr.Viol = append(cr.Viol, w.Viol...)
			return
		}
		cr.Init = map[string]string{}
		for k, v := range w.M.M {
			cr.Init[k] = v
		}
		db := w.DB
		cr.WinPos = len(w.Stor.Ops)
		for _, f := range p.Faults {
			w.Stor.Rules = append(w.Stor.Rules, &vstor.Rule{Kind: vstor.Kind(f.Kind), Types: storage.FileType(f.Type), Nth: f.Nth, Count: f.Count, Mode: vstor.Mode(f.Mode), FlipPos: f.Pos})
		}
		var wg vsync.WaitGroup
		record := func(cid int, in linInput, call int64, out linOutput, what string) {
			cr.Hist = append(cr.Hist, porcupine.Operation{ClientId: cid, Input: in, Call: call, Output: out, Return: tick()})
			cr.Descr = append(cr.Descr, fmt.Sprintf("c%d %s -> %v %s", cid, what, out.Vals, out.Err))
			if out.Err != "" {
				cr.Errs = append(cr.Errs, fmt.Sprintf("c%d %s: %s", cid, what, out.Err))
			}
		}
		var closeCall int64 // history clock when Close was first called (0: not yet)
		vsched.Arm()
		for ci, ops := range p.Clients {
			ci, ops := ci, ops
			wg.Add(1)
			vsched.GoNamed(fmt.Sprintf("client%d", ci), func() {
				defer wg.Done()
				for oi, op := range ops {
					t, arg := op, ""
					if i := strings.IndexByte(op, ':'); i >= 0 {
						t, arg = op[:i], op[i+1:]
					}
					val := fmt.Sprintf("c%d.%d", ci, oi)
					var wo *opt.WriteOptions
					if len(t) > 1 && t[0] == 'S' {
						// "S<op>": the same write with WriteOptions.Sync
						t = t[1:]
						wo = &opt.WriteOptions{Sync: true}
					} else if len(t) > 1 && t[0] == 'N' {
						// "N<op>": the same write with WriteOptions.NoWriteMerge (it neither leads nor joins a group)
						t = t[1:]
						wo = &opt.WriteOptions{NoWriteMerge: true}
					}
					durable := func(b model.Batch, call int64, err error) {
						if err == nil && ((wo != nil && wo.Sync) || t == "tr" || t == "trq") {
							vsched.Event(vsched.OpStorage, vsched.ObjStorage, false)
							cr.Dur = append(cr.Dur, durRec{Batch: b, Call: call, Return: clock, AckPos: len(w.Stor.Ops)})
						}
					}
					switch t {
					case "putH":
						// a record above the 128 KiB merge limit: cannot be merged whatever the buffer size
						val = val + strings.Repeat("H", 132000)
						t = "put"
						fallthrough
					case "putL":
						// a value large enough to exceed the merge capacity of a 64-byte write buffer
						if t == "putL" {
							val = val + strings.Repeat("L", 60)
						}
						fallthrough
					case "put":
						b := model.Batch{{K: arg, V: canonVal(val)}}
						call := tick()
						kb, vb := []byte(arg), []byte(val)
						err := db.Put(kb, vb, wo)
						// the caller owns its buffers again as soon as the call returns (C20): overwrite them
						scribble(kb)
						scribble(vb)
						record(ci, linInput{Kind: "write", Batch: b}, call, linOutput{Err: errStr(err)}, op)
						durable(b, call, err)
					case "del":
						b := model.Batch{{Del: true, K: arg}}
						call := tick()
						err := db.Delete([]byte(arg), wo)
						record(ci, linInput{Kind: "write", Batch: b}, call, linOutput{Err: errStr(err)}, op)
						durable(b, call, err)
					case "w", "tr", "trq":
						var mb model.Batch
						lb := new(leveldb.Batch)
						for j, f := range strings.Split(arg, ",") {
							if f[0] == '-' {
								mb = append(mb, model.BatchOp{Del: true, K: f[1:]})
								lb.Delete([]byte(f[1:]))
							} else {
								v := fmt.Sprintf("%s.%d", val, j)
								mb = append(mb, model.BatchOp{K: f[1:], V: v})
								lb.Put([]byte(f[1:]), []byte(v))
								if t != "w" {
									if cr.TrVals == nil {
										cr.TrVals = map[string]bool{}
									}
									cr.TrVals[v] = true
								}
							}
						}
						call := tick()
						var err error
						if t == "w" {
							before := append([]byte(nil), lb.Dump()...)
							err = db.Write(lb, wo)
							// "Write will not modify content of the batch" (C20)
							if !bytes.Equal(before, lb.Dump()) {
								cr.Viol = append(cr.Viol, fmt.Sprintf("c%d %s: Write modified the caller's batch (%d -> %d records)", ci, op, len(mb), lb.Len()))
							}
							// reuse the batch at once, as a caller may: same keys, foreign values
							lb.Reset()
							for _, o := range mb {
								lb.Put([]byte(o.K), []byte("SCRIBBLED-AFTER-RETURN"))
							}
						} else {
							var tr *leveldb.Transaction
							tr, err = db.OpenTransaction()
							if err == nil {
								err = tr.Write(lb, nil)
								if t == "trq" {
									// hold the write lock until every other client is parked behind it: the
									// base schedule itself then contains a full queue of waiting writers
									vsched.Quiesce()
								}
								if err == nil {
									err = tr.Commit()
								}
								if err != nil {
									tr.Discard()
								}
							}
						}
						record(ci, linInput{Kind: "write", Batch: mb}, call, linOutput{Err: errStr(err)}, op)
						durable(mb, call, err)
					case "get", "getnf":
						call := tick()
						var ro *opt.ReadOptions
						if t == "getnf" {
							ro = &opt.ReadOptions{DontFillCache: true}
						}
						v, e := getVal(db.Get([]byte(arg), ro))
						record(ci, linInput{Kind: "get", Keys: []string{arg}}, call, linOutput{Vals: []string{v}, Err: e}, op)
					case "has":
						call := tick()
						ok, err := db.Has([]byte(arg), nil)
						v := "0"
						if ok {
							v = "1"
						}
						record(ci, linInput{Kind: "has", Keys: []string{arg}}, call, linOutput{Vals: []string{v}, Err: errStr(err)}, op)
					case "snapget":
						keys := strings.Split(arg, ",")
						call := tick()
						s, err := db.GetSnapshot()
						ret := tick()
						out := linOutput{Err: errStr(err)}
						if err == nil {
							for _, k := range keys {
								v, e := getVal(s.Get([]byte(k), nil))
								out.Vals = append(out.Vals, v)
								if e != "" {
									out.Err = e
								}
							}
							s.Release()
						}
						cr.Hist = append(cr.Hist, porcupine.Operation{ClientId: ci, Input: linInput{Kind: "view", Keys: keys}, Call: call, Output: out, Return: ret})
						cr.Descr = append(cr.Descr, fmt.Sprintf("c%d %s -> %v %s", ci, op, out.Vals, out.Err))
					case "iterscan":
						call := tick()
						it := db.NewIterator(nil, nil)
						ret := tick()
						m := map[string]string{}
						for it.Next() {
							m[string(it.Key())] = string(it.Value())
						}
						out := linOutput{Vals: []string{string(encodeState(m))}, Err: errStr(it.Error())}
						it.Release()
						rel := tick()
						if closeCall > 0 && closeCall < rel {
							// Close was called while this iterator was being created or was still
							// unreleased: "it is not safe to close a DB until all outstanding iterators
							// are released" - what such an iterator yields is outside the contract
							// (it must still not hang or crash)
							cr.Descr = append(cr.Descr, fmt.Sprintf("c%d %s -> (iterator outstanding across Close: not judged)", ci, op))
							break
						}
						cr.Hist = append(cr.Hist, porcupine.Operation{ClientId: ci, Input: linInput{Kind: "scan"}, Call: call, Output: out, Return: ret})
						cr.Descr = append(cr.Descr, fmt.Sprintf("c%d %s -> %v %s", ci, op, out.Vals, out.Err))
					case "cr":
						err := db.CompactRange(util.Range{})
						if err != nil {
							cr.Errs = append(cr.Errs, fmt.Sprintf("c%d cr: %v", ci, err))
						}
					case "close":
						if closeCall == 0 {
							closeCall = tick()
						}
						db.Close()
					case "ro":
						db.SetReadOnly()
					default:
						panic("unknown client op " + op)
					}
				}
			})
		}
		wg.Wait()
		vsched.Disarm()
		w.Stor.Rules = nil
		// final read-back, after everything
		keys := map[string]bool{}
		for k := range cr.Init {
			keys[k] = true
		}
		for _, o := range cr.Hist {
			for _, b := range o.Input.(linInput).Batch {
				keys[b.K] = true
			}
		}
		var ks []string
		for k := range keys {
			ks = append(ks, k)
		}
		sort.Strings(ks)
		closed := false
		for _, c := range p.Clients {
			for _, op := range c {
				if op == "close" {
					closed = true
				}
			}
		}
		if !closed {
			for _, k := range ks {
				call := tick()
				v, e := getVal(db.Get([]byte(k), nil))
				record(99, linInput{Kind: "get", Keys: []string{k}}, call, linOutput{Vals: []string{v}, Err: e}, "final-get:"+k)
			}
		}
		if extra != nil {
			extra(w, cr)
		}
		if p.Residue && !closed && len(cr.Viol) == 0 {
			vsched.Sleep(120e9)
			w.CheckResidue("after the concurrent window and 120 virtual seconds of settling")
			cr.Viol = append(cr.Viol, w.Viol...)
		}
		if !closed {
			db.Close()
		}
		journalOnly := len(p.Faults) > 0
		for _, f := range p.Faults {
			if storage.FileType(f.Type) != storage.TypeJournal {
				journalOnly = false // manifest/table faults: the fault enumeration (C08) judges the reopen
			}
		}
		if journalOnly && !closed {
			// after faults: what the DB answered once they had stopped must survive a clean close
			// and reopen (a record that failed half-way must not shadow later acknowledged writes)
			w.DB = nil
			if err := w.Open(); err != nil {
				cr.Viol = append(cr.Viol, "reopen after the faulted window failed: "+err.Error())
				return
			}
			// a write that returned an error may turn out applied only now (its record reached
			// the journal): per key the reopened DB answers what it answered before, or what a
			// failed write to that key would have stored - never less than the acknowledged state
			failed := map[string]map[string]bool{}
			for _, o := range cr.Hist {
				in := o.Input.(linInput)
				if in.Kind != "write" || o.Output.(linOutput).Err == "" {
					continue
				}
				for _, b := range in.Batch {
					if failed[b.K] == nil {
						failed[b.K] = map[string]bool{}
					}
					if b.Del {
						failed[b.K][notFound] = true
					} else {
						failed[b.K][b.V] = true
					}
				}
			}
			for _, k := range ks {
				v, e := getVal(w.DB.Get([]byte(k), nil))
				before, have := "", false
				for i, o := range cr.Hist {
					if o.ClientId == 99 && strings.HasPrefix(cr.Descr[i], "c99 final-get:"+k+" ->") && o.Output.(linOutput).Err == "" {
						before, have = o.Output.(linOutput).Vals[0], true
					}
				}
				if !have {
					continue
				}
				if e != "" {
					cr.Viol = append(cr.Viol, fmt.Sprintf("after clean close and reopen Get(%q) fails: %s", k, e))
				} else if v != before && !failed[k][v] {
					cr.Viol = append(cr.Viol, fmt.Sprintf("after clean close and reopen Get(%q) = %q; before the reopen it was %q and no failed write stored that", k, v, before))
				}
			}
			w.DB.Close()
			w.DB = nil
		}
	})
	return r, cr
}

func scribble(b []byte) {
	for i := range b {
		b[i] = '#'
	}
}

func errStr(err error) string {
	if err == nil {
		return ""
	}
	return err.Error()
}

// concExec turns one execution into the explorer's record, applying the linearizability
// oracle and the no-deadlock / no-panic verdicts.
func concExec(p *concParams, prefix []int, extra func(w *harness.World, cr *concRun)) *explore.Exec {
	r, cr := runConc(p, prefix, extra)
	x := &explore.Exec{Points: r.Points, Verdict: r.Verdict.String(), Diverged: r.Diverged, Steps: r.Steps, HBFinal: r.HBFinal, PrunedAt: r.PrunedAt}
	if r.Verdict == vsched.Pruned {
		return x
	}
	x.Viol = append(x.Viol, cr.Viol...)
	x.Aux = cr.Aux
	if r.Diverged != "" {
		return x
	}
	if r.Verdict != vsched.Completed {
		x.Viol = append(x.Viol, fmt.Sprintf("execution ended with %s: %v", r.Verdict, r.PanicValue))
		x.Blocked = r.Blocked
		if r.PanicStack != "" {
			x.Blocked = append(x.Blocked, r.PanicStack)
		}
	} else {
		if p.Expect == "noerr" && len(cr.Errs) > 0 {
			x.Viol = append(x.Viol, "client operation failed: "+cr.Errs[0])
		}
		if !porcupine.CheckOperations(linModel(cr.Init), cr.Hist) {
			x.Viol = append(x.Viol, "history is not linearizable: "+strings.Join(cr.Descr, " | "))
		}
	}
	h := fnv.New64a()
	for _, d := range cr.Descr {
		h.Write([]byte(d))
		h.Write([]byte{0})
	}
	x.Hist = h.Sum64()
	// outcome = final reads
	var fin []string
	for _, d := range cr.Descr {
		if strings.HasPrefix(d, "c99 ") {
			fin = append(fin, d[4:])
		}
	}
	x.Outcome = strings.Join(fin, ";")
	return x
}

// dfsWorker builds the worker function for schedule-search checks: scenarios are looked
// up by name in the table.
func dfsWorker(scen map[string]func(params json.RawMessage) explore.RunFunc) func(task []byte) []byte {
	return func(task []byte) []byte {
		var t explore.DFSTask
		if err := json.Unmarshal(task, &t); err != nil {
			return explore.MustJSON(explore.DFSResult{Nondet: "bad task: " + err.Error()})
		}
		mk := scen[t.Scenario]
		if mk == nil {
			return explore.MustJSON(explore.DFSResult{Nondet: "unknown scenario " + t.Scenario})
		}
		return explore.MustJSON(explore.RunDFSTask(&t, mk(t.Params)))
	}
}

func concScenario(params json.RawMessage) explore.RunFunc {
	var p concParams
	json.Unmarshal(params, &p)
	return func(prefix []int) *explore.Exec { return concExec(&p, prefix, nil) }
}
