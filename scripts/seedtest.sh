#!/bin/bash
# usage: seedtest.sh <worktree-with-change-applied> <check-id>...   — runs quick checks against another checkout,
# writing evidence/replays into a scratch root so /verif's own evidence is untouched.
WT="$1"; shift
ROOT="$(cd "$(dirname "$0")/.." && pwd)"
for id in "$@"; do
  SCR="$(mktemp -d /tmp/verif-seed.XXXXXX)"
  cp "$ROOT/known_findings.jsonl" "$SCR/"
  TMP="$(mktemp -d /tmp/verif.XXXXXX)"
  EXTRA=(); [ "$id" = C14 ] && EXTRA=(-stmt leveldb/memdb); [ "$id" = C17 ] && EXTRA=(-stmt leveldb/cache); case "$id" in C05|C09|C10|C18) EXTRA=(-stmt "$("$ROOT/scripts/stmtfiles.sh")") ;; esac
  if VERIF_REPO="$WT" "$ROOT/scripts/build.sh" "$TMP" "${EXTRA[@]}" >"$TMP/build.log" 2>&1; then
    VERIF_ROOT="$SCR" "$TMP/verif" run "$id" "${TIER:-quick}" 2>&1 | grep -aE "^C[0-9]+ |signature|UNCONF|NONDET|bound=" | head -${LINES_MAX:-6} | cut -c1-${CUT:-420}
    echo "  -> exit ${PIPESTATUS[0]}"
  else
    echo "$id: BUILD-ERROR"; tail -5 "$TMP/build.log"
  fi
  rm -rf "$TMP" "$SCR"
done
