#!/bin/bash
# usage: regress_seeds.sh <out.tsv> [pattern]  — re-runs, for every kept seeded change, the quick tier of the check that
# seeded/<id>/meta.json names first under checks_run, against a scratch worktree with the change applied (mutrun.sh).
OUT="$1"; PAT="${2:-.}"
ROOT="$(cd "$(dirname "$0")/.." && pwd)"
for d in "$ROOT"/seeded/*/; do
  n="$(basename "$d")"
  echo "$n" | grep -qE "$PAT" || continue
  [ -f "$d/meta.json" ] || continue
  id="$(python3 -c "
import json,sys,re
m=json.load(open('$d/meta.json'))
ks=[k for k in m.get('checks_run',{}) if not re.search(r'missed', str(m['checks_run'][k]))]
ks=ks or list(m.get('checks_run',{}))
print(re.match(r'(C\d+)', ks[0]).group(1) if ks else m['breaks'])")"
  cp "$d/patch.diff" "/tmp/regress_$n.diff"
  "$ROOT/scripts/mutrun.sh" "$OUT" "/tmp/regress_$n.diff" "$id"
  rm -f "/tmp/regress_$n.diff"
done
