// Package vtime mirrors the parts of package time goleveldb uses, on the virtual clock.
package vtime

import (
	"time"

	"verif/vsched"
)

type Duration = time.Duration
type Time = time.Time
type Month = time.Month

const (
	Nanosecond  = time.Nanosecond
	Microsecond = time.Microsecond
	Millisecond = time.Millisecond
	Second      = time.Second
	Minute      = time.Minute
	Hour        = time.Hour
)

var epoch = time.Unix(1700000000, 0)

func at(ns int64) Time { return epoch.Add(time.Duration(ns)) }

func Now() Time             { return at(vsched.Now()) }
func Since(t Time) Duration { return Now().Sub(t) }
func Until(t Time) Duration { return t.Sub(Now()) }
func Sleep(d Duration)      { vsched.Sleep(int64(d)) }
func Unix(s, ns int64) Time { return time.Unix(s, ns) }

type Timer struct {
	C *vsched.Chan[Time]
	t *vsched.Timer
}

func NewTimer(d Duration) *Timer {
	c := vsched.NewChan[Time](1)
	t := vsched.AddTimer(int64(d), 0, func(now int64) { c.TryPut(at(now)) })
	return &Timer{C: c, t: t}
}

func (t *Timer) Stop() bool            { return t.t.Stop() }
func (t *Timer) Reset(d Duration) bool { return t.t.Reset(int64(d)) }

func After(d Duration) *vsched.Chan[Time] { return NewTimer(d).C }

func AfterFunc(d Duration, f func()) *Timer {
	t := vsched.AddTimer(int64(d), 0, func(now int64) { vsched.Go(f) })
	return &Timer{t: t}
}

type Ticker struct {
	C *vsched.Chan[Time]
	t *vsched.Timer
}

func NewTicker(d Duration) *Ticker {
	if d <= 0 {
		panic("non-positive interval for NewTicker")
	}
	c := vsched.NewChan[Time](1)
	t := vsched.AddTimer(int64(d), int64(d), func(now int64) { c.TryPut(at(now)) })
	return &Ticker{C: c, t: t}
}

func (t *Ticker) Stop()            { t.t.Stop() }
func (t *Ticker) Reset(d Duration) { t.t.Reset(int64(d)) }

func Tick(d Duration) *vsched.Chan[Time] { return NewTicker(d).C }
