// Package vstor is a deterministic in-memory storage.Storage that records every operation,
// can inject faults at the k-th matching operation, and can materialise the durable image
// a crash at any log position would leave behind.
package vstor

import (
	"errors"
	"fmt"
	"hash/fnv"
	"io"
	"os"
	"sort"

	"github.com/syndtr/goleveldb/leveldb/storage"
	"verif/vsched"
)

type Kind uint8

const (
	KCreate Kind = iota
	KOpen
	KRead
	KWrite
	KSync
	KClose // close of a writer
	KRemove
	KRename
	KSetMeta
	KGetMeta
	KList
	KLock
	KUnlock
	KCloseReader
	nKinds
)

var kindNames = [...]string{"create", "open", "read", "write", "sync", "close", "remove", "rename", "setmeta", "getmeta", "list", "lock", "unlock", "closereader"}

func (k Kind) String() string { return kindNames[k] }

// Mutating reports whether the operation changes what the storage holds.
func (k Kind) Mutating() bool {
	switch k {
	case KCreate, KWrite, KSync, KRemove, KRename, KSetMeta:
		return true
	}
	return false
}

// Op is one logged operation.
type Op struct {
	Seq  int
	G    int
	Kind Kind
	Fd   storage.FileDesc
	Fd2  storage.FileDesc // rename target
	Data []byte           // bytes actually written (Write)
	Off  int64
	Len  int
	Err  bool // operation returned an error (injected or natural)
	Eff  bool // the operation took effect on the stored state
	Inj  bool // error was injected
}

func (o Op) String() string {
	s := fmt.Sprintf("#%d g%d %s %v", o.Seq, o.G, o.Kind, o.Fd)
	if o.Kind == KRename {
		s += fmt.Sprintf("->%v", o.Fd2)
	}
	if o.Kind == KWrite || o.Kind == KRead {
		s += fmt.Sprintf(" @%d+%d", o.Off, o.Len)
	}
	if o.Err {
		s += " ERR"
		if o.Inj {
			s += "(inj)"
		}
	}
	return s
}

// ErrInjected is the error returned by injected faults.
var ErrInjected = errors.New("vstor: injected fault")

// Rule injects faults: the Nth (1-based) operation matching Kind/Type fails, and so do the
// following Count-1 matching operations. Mode selects the flavour.
type Rule struct {
	Kind  Kind
	Types storage.FileType // 0 = any (meta ops have no type)
	Nth   int
	Count int // 0 or 1 = once; <0 = forever
	Mode  Mode
	// FlipPos selects the damaged byte of a ModeFlip read: 0 the middle of the data returned,
	// 1 its last byte, 2 the byte before the last, 3 the first quarter.
	FlipPos int
	seen    int
	Fired   int
}

type Mode uint8

const (
	ModeFail    Mode = iota // return ErrInjected, no effect
	ModePartial             // Write: first half written, then error
	ModeFlip                // Read: succeed but flip one byte of the returned data
	ModeAfter               // perform the operation, then report an error (lost ack)
)

type file struct {
	data   []byte
	synced int   // durable length
	wends  []int // end offsets of writes since last sync
	nopen  int
	wopen  bool
	gen    int
}

// Stor implements storage.Storage.
type Stor struct {
	files  map[storage.FileDesc]*file
	meta   storage.FileDesc
	locked bool
	closed bool

	Ops     []Op
	Record  bool // keep data bytes in the log (needed for crash images)
	Rules   []*Rule
	Audit   bool     // record mutating operations as breaches
	Breach  []string // audit breaches
	Points  bool     // make mutating operations scheduling points
	LogText []string // DB log lines (storage.Log)
	KeepLog bool
	// statistics
	RemovedWhileOpen int
	Faults           int
	seq              int
}

func New() *Stor {
	return &Stor{files: map[storage.FileDesc]*file{}, Record: true}
}

func (s *Stor) match(k Kind, fd storage.FileDesc) *Rule {
	for _, r := range s.Rules {
		if r.Kind != k {
			continue
		}
		if r.Types != 0 && fd.Type&r.Types == 0 {
			continue
		}
		r.seen++
		if r.seen < r.Nth {
			continue
		}
		if r.Count < 0 || r.seen < r.Nth+max1(r.Count) {
			r.Fired++
			s.Faults++
			return r
		}
	}
	return nil
}

func max1(n int) int {
	if n < 1 {
		return 1
	}
	return n
}

func (s *Stor) log(k Kind, fd storage.FileDesc) *Op {
	if s.Audit && k.Mutating() {
		s.Breach = append(s.Breach, fmt.Sprintf("%s %v by g%d", k, fd, vsched.Cur()))
	}
	vsched.Event(vsched.OpStorage, vsched.ObjStorage, true)
	s.seq++
	s.Ops = append(s.Ops, Op{Seq: s.seq, G: vsched.Cur(), Kind: k, Fd: fd})
	return &s.Ops[len(s.Ops)-1]
}

func (s *Stor) point(k Kind) {
	if s.Points && k.Mutating() {
		vsched.Point(vsched.OpStorage, uint64(k), nil)
	}
}

// ---- storage.Storage ----

type locker struct{ s *Stor }

func (l *locker) Unlock() {
	l.s.log(KUnlock, storage.FileDesc{})
	l.s.locked = false
}

func (s *Stor) Lock() (storage.Locker, error) {
	op := s.log(KLock, storage.FileDesc{})
	if s.locked {
		op.Err = true
		return nil, storage.ErrLocked
	}
	s.locked = true
	return &locker{s}, nil
}

func (s *Stor) Log(str string) {
	if s.KeepLog {
		s.LogText = append(s.LogText, str)
	}
}

func (s *Stor) SetMeta(fd storage.FileDesc) error {
	if !storage.FileDescOk(fd) {
		return storage.ErrInvalidFile
	}
	s.point(KSetMeta)
	op := s.log(KSetMeta, fd)
	if r := s.match(KSetMeta, fd); r != nil {
		op.Err, op.Inj = true, true
		if r.Mode != ModeAfter {
			return ErrInjected
		}
		s.meta = fd
		op.Eff = true
		return ErrInjected
	}
	s.meta = fd
	op.Eff = true
	return nil
}

func (s *Stor) GetMeta() (storage.FileDesc, error) {
	op := s.log(KGetMeta, storage.FileDesc{})
	if r := s.match(KGetMeta, storage.FileDesc{}); r != nil {
		op.Err, op.Inj = true, true
		return storage.FileDesc{}, ErrInjected
	}
	if s.meta.Zero() {
		op.Err = true
		return storage.FileDesc{}, os.ErrNotExist
	}
	if _, ok := s.files[s.meta]; !ok {
		// CURRENT names a file that does not exist: file_storage reports corruption here; the
		// closest portable behaviour is to hand out the descriptor and let Open fail.
	}
	return s.meta, nil
}

func (s *Stor) List(ft storage.FileType) ([]storage.FileDesc, error) {
	op := s.log(KList, storage.FileDesc{Type: ft})
	if r := s.match(KList, storage.FileDesc{Type: ft}); r != nil {
		op.Err, op.Inj = true, true
		return nil, ErrInjected
	}
	return s.list(ft), nil
}

func (s *Stor) list(ft storage.FileType) []storage.FileDesc {
	var fds []storage.FileDesc
	for fd := range s.files {
		if fd.Type&ft != 0 {
			fds = append(fds, fd)
		}
	}
	sort.Slice(fds, func(i, j int) bool {
		if fds[i].Type != fds[j].Type {
			return fds[i].Type < fds[j].Type
		}
		return fds[i].Num < fds[j].Num
	})
	return fds
}

func (s *Stor) Open(fd storage.FileDesc) (storage.Reader, error) {
	if !storage.FileDescOk(fd) {
		return nil, storage.ErrInvalidFile
	}
	op := s.log(KOpen, fd)
	if r := s.match(KOpen, fd); r != nil {
		op.Err, op.Inj = true, true
		return nil, ErrInjected
	}
	f, ok := s.files[fd]
	if !ok {
		op.Err = true
		return nil, os.ErrNotExist
	}
	f.nopen++
	return &reader{s: s, f: f, fd: fd}, nil
}

func (s *Stor) Create(fd storage.FileDesc) (storage.Writer, error) {
	if !storage.FileDescOk(fd) {
		return nil, storage.ErrInvalidFile
	}
	s.point(KCreate)
	op := s.log(KCreate, fd)
	if r := s.match(KCreate, fd); r != nil {
		op.Err, op.Inj = true, true
		return nil, ErrInjected
	}
	f, ok := s.files[fd]
	if ok {
		if f.wopen || f.nopen > 0 {
			op.Err = true
			return nil, fmt.Errorf("vstor: create of open file %v", fd)
		}
		f.data = nil
		f.synced = 0
		f.wends = nil
		f.gen++
	} else {
		f = &file{}
		s.files[fd] = f
	}
	f.wopen = true
	op.Eff = true
	return &writer{s: s, f: f, fd: fd}, nil
}

func (s *Stor) Remove(fd storage.FileDesc) error {
	if !storage.FileDescOk(fd) {
		return storage.ErrInvalidFile
	}
	s.point(KRemove)
	op := s.log(KRemove, fd)
	if r := s.match(KRemove, fd); r != nil {
		op.Err, op.Inj = true, true
		if r.Mode != ModeAfter {
			return ErrInjected
		}
	}
	f, ok := s.files[fd]
	if !ok {
		op.Err = true
		return os.ErrNotExist
	}
	if f.nopen > 0 || f.wopen {
		s.RemovedWhileOpen++
	}
	delete(s.files, fd)
	op.Eff = true
	if op.Inj {
		return ErrInjected
	}
	return nil
}

func (s *Stor) Rename(oldfd, newfd storage.FileDesc) error {
	if !storage.FileDescOk(oldfd) || !storage.FileDescOk(newfd) {
		return storage.ErrInvalidFile
	}
	if oldfd == newfd {
		return nil
	}
	s.point(KRename)
	op := s.log(KRename, oldfd)
	op.Fd2 = newfd
	if r := s.match(KRename, oldfd); r != nil {
		op.Err, op.Inj = true, true
		return ErrInjected
	}
	f, ok := s.files[oldfd]
	if !ok {
		op.Err = true
		return os.ErrNotExist
	}
	delete(s.files, oldfd)
	s.files[newfd] = f
	op.Eff = true
	return nil
}

func (s *Stor) Close() error {
	s.closed = true
	return nil
}

type reader struct {
	s      *Stor
	f      *file
	fd     storage.FileDesc
	pos    int64
	closed bool
}

func (r *reader) fault(p []byte, n int) error {
	op := r.s.log(KRead, r.fd)
	op.Len = n
	if ru := r.s.match(KRead, r.fd); ru != nil {
		op.Inj = true
		if ru.Mode == ModeFlip {
			if n > 0 {
				i := n / 2
				switch ru.FlipPos {
				case 1:
					i = n - 1
				case 2:
					i = max(n-2, 0)
				case 3:
					i = n / 4
				}
				p[i] ^= 0x40
			}
			return nil
		}
		op.Err = true
		return ErrInjected
	}
	return nil
}

func (r *reader) Read(p []byte) (int, error) {
	if r.closed {
		return 0, storage.ErrClosed
	}
	if r.pos >= int64(len(r.f.data)) {
		return 0, io.EOF
	}
	n := copy(p, r.f.data[r.pos:])
	if err := r.fault(p, n); err != nil {
		return 0, err
	}
	r.pos += int64(n)
	return n, nil
}

func (r *reader) ReadAt(p []byte, off int64) (int, error) {
	if r.closed {
		return 0, storage.ErrClosed
	}
	if off < 0 {
		return 0, errors.New("vstor: negative offset")
	}
	if off >= int64(len(r.f.data)) {
		return 0, io.EOF
	}
	n := copy(p, r.f.data[off:])
	if err := r.fault(p, n); err != nil {
		return 0, err
	}
	if n < len(p) {
		return n, io.EOF
	}
	return n, nil
}

func (r *reader) Seek(offset int64, whence int) (int64, error) {
	var abs int64
	switch whence {
	case io.SeekStart:
		abs = offset
	case io.SeekCurrent:
		abs = r.pos + offset
	case io.SeekEnd:
		abs = int64(len(r.f.data)) + offset
	default:
		return 0, errors.New("vstor: invalid whence")
	}
	if abs < 0 {
		return 0, errors.New("vstor: negative position")
	}
	r.pos = abs
	return abs, nil
}

func (r *reader) Close() error {
	if r.closed {
		return storage.ErrClosed
	}
	r.s.log(KCloseReader, r.fd)
	r.closed = true
	r.f.nopen--
	return nil
}

type writer struct {
	s      *Stor
	f      *file
	fd     storage.FileDesc
	closed bool
}

func (w *writer) Write(p []byte) (int, error) {
	if w.closed {
		return 0, storage.ErrClosed
	}
	w.s.point(KWrite)
	op := w.s.log(KWrite, w.fd)
	op.Off = int64(len(w.f.data))
	if r := w.s.match(KWrite, w.fd); r != nil {
		op.Err, op.Inj = true, true
		switch r.Mode {
		case ModePartial:
			n := len(p) / 2
			w.put(op, p[:n])
			return n, ErrInjected
		case ModeAfter:
			w.put(op, p)
			return len(p), ErrInjected
		}
		return 0, ErrInjected
	}
	w.put(op, p)
	return len(p), nil
}

func (w *writer) put(op *Op, p []byte) {
	w.f.data = append(w.f.data, p...)
	w.f.wends = append(w.f.wends, len(w.f.data))
	op.Len = len(p)
	if w.s.Record {
		op.Data = append([]byte(nil), p...)
	}
}

func (w *writer) Sync() error {
	if w.closed {
		return storage.ErrClosed
	}
	w.s.point(KSync)
	op := w.s.log(KSync, w.fd)
	if r := w.s.match(KSync, w.fd); r != nil {
		op.Err, op.Inj = true, true
		if r.Mode == ModeAfter {
			w.f.synced = len(w.f.data)
			w.f.wends = nil
			op.Eff = true
		}
		return ErrInjected
	}
	w.f.synced = len(w.f.data)
	w.f.wends = nil
	op.Eff = true
	return nil
}

func (w *writer) Close() error {
	if w.closed {
		return storage.ErrClosed
	}
	op := w.s.log(KClose, w.fd)
	w.closed = true
	w.f.wopen = false
	if r := w.s.match(KClose, w.fd); r != nil {
		op.Err, op.Inj = true, true
		return ErrInjected
	}
	return nil
}

// ---- inspection ----

// Files returns the sorted listing.
func (s *Stor) Files() []storage.FileDesc { return s.list(storage.TypeAll) }

func (s *Stor) Meta() storage.FileDesc { return s.meta }

func (s *Stor) Exists(fd storage.FileDesc) bool { _, ok := s.files[fd]; return ok }

func (s *Stor) Data(fd storage.FileDesc) []byte {
	if f, ok := s.files[fd]; ok {
		return f.data
	}
	return nil
}

func (s *Stor) Size(fd storage.FileDesc) int64 {
	if f, ok := s.files[fd]; ok {
		return int64(len(f.data))
	}
	return -1
}

func (s *Stor) Locked() bool { return s.locked }

// OpenHandles returns the number of open readers+writers over all files.
func (s *Stor) OpenHandles() int {
	n := 0
	for _, f := range s.files {
		n += f.nopen
		if f.wopen {
			n++
		}
	}
	return n
}

// Hash is a content hash of the whole storage (listing, bytes, meta).
func (s *Stor) Hash() uint64 {
	h := fnv.New64a()
	for _, fd := range s.list(storage.TypeAll) {
		fmt.Fprintf(h, "%d/%d:", fd.Type, fd.Num)
		h.Write(s.files[fd].data)
		h.Write([]byte{0xff, 0})
	}
	fmt.Fprintf(h, "meta%d/%d", s.meta.Type, s.meta.Num)
	return h.Sum64()
}

// Clone copies the storage contents (not the log, rules or handles): the state a clean
// process restart would find.
func (s *Stor) Clone() *Stor {
	n := New()
	for fd, f := range s.files {
		n.files[fd] = &file{data: append([]byte(nil), f.data...), synced: len(f.data)}
	}
	n.meta = s.meta
	return n
}

// SetData overwrites a file's content (damage injection between runs).
func (s *Stor) SetData(fd storage.FileDesc, b []byte) {
	s.files[fd] = &file{data: b, synced: len(b)}
}

func (s *Stor) Delete(fd storage.FileDesc) { delete(s.files, fd) }

func (s *Stor) ClearMeta() { s.meta = storage.FileDesc{} }

func (s *Stor) SetMetaRaw(fd storage.FileDesc) { s.meta = fd }

// ResetLog drops the recorded operations (keeps contents).
func (s *Stor) ResetLog() { s.Ops = nil }

// ForceUnlock models the death of the owning process.
func (s *Stor) ForceUnlock() { s.locked = false }
