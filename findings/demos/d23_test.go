package findings

import (
	"sync"
	"testing"
	"time"

	"github.com/syndtr/goleveldb/leveldb"
	"github.com/syndtr/goleveldb/leveldb/opt"
	"github.com/syndtr/goleveldb/leveldb/storage"
	"github.com/syndtr/goleveldb/leveldb/util"
)

// tableWriteAndRemoveFail fails one Write on a table file once armed, and the Remove of a
// table file that follows it (an I/O error episode that hits both the write and the clean-up).
type tableWriteAndRemoveFail struct {
	storage.Storage
	mu         sync.Mutex
	armed      bool
	skipWrites int
	failRemove bool
	wrote      bool
	removed    bool
}

type twrfWriter struct {
	storage.Writer
	s *tableWriteAndRemoveFail
}

func (w *twrfWriter) Write(p []byte) (int, error) {
	w.s.mu.Lock()
	if w.s.armed && !w.s.wrote {
		if w.s.skipWrites > 0 {
			w.s.skipWrites--
		} else {
			w.s.wrote = true
			w.s.failRemove = true
			w.s.mu.Unlock()
			return 0, errInjected
		}
	}
	w.s.mu.Unlock()
	return w.Writer.Write(p)
}

func (s *tableWriteAndRemoveFail) Create(fd storage.FileDesc) (storage.Writer, error) {
	w, err := s.Storage.Create(fd)
	if err != nil || fd.Type != storage.TypeTable {
		return w, err
	}
	return &twrfWriter{w, s}, nil
}

func (s *tableWriteAndRemoveFail) Remove(fd storage.FileDesc) error {
	s.mu.Lock()
	if fd.Type == storage.TypeTable && s.failRemove && !s.removed {
		s.removed = true
		s.mu.Unlock()
		return errInjected
	}
	s.mu.Unlock()
	return s.Storage.Remove(fd)
}

// D23 (C08/C09): a table compaction whose output write fails cleans up by dropping the partial
// table; when the removal of that file fails too, tableCompactionBuilder.cleanup returned
// before forgetting the dropped writer, and the retry dereferenced its nil table writer in
// needFlush: the compaction goroutine panicked and took the process down.
func TestD23_FailedRemovalOfPartialCompactionOutput(t *testing.T) {
	for skip := 0; skip < 6; skip++ {
		st := &tableWriteAndRemoveFail{Storage: storage.NewMemStorage(), skipWrites: skip}
		o := flushy()
		db, err := leveldb.Open(st, o)
		if err != nil {
			t.Fatal(err)
		}
		for i := 0; i < 3; i++ {
			for _, k := range []string{"a", "b", "c"} {
				if err := db.Put([]byte(k), []byte("0123456789"), nil); err != nil {
					t.Fatal(err)
				}
			}
		}
		db.CompactRange(util.Range{})
		for _, k := range []string{"a", "b", "c", "a", "b", "c"} {
			if err := db.Put([]byte(k), []byte("abcdefghij"), &opt.WriteOptions{Sync: true}); err != nil {
				t.Fatal(err)
			}
		}
		time.Sleep(100 * time.Millisecond)
		// compact everything: the compaction's output write fails once, so does the removal of
		// the partial output; the compaction is retried after its back-off
		st.mu.Lock()
		st.armed = true
		st.mu.Unlock()
		db.CompactRange(util.Range{})
		time.Sleep(1500 * time.Millisecond) // the retry happens after a 1 s back-off
		for _, k := range []string{"a", "b", "c"} {
			mustGet(t, db, k, "abcdefghij")
		}
		db.Close()
	}
}
