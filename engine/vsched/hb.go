package vsched

// Happens-before fingerprints (Options.HB).
//
// Every operation on a shared object - scheduling points and the non-point operations
// (unlocks, WaitGroup.Add, pool and storage accesses, harness bookkeeping) - is an *event*.
// An event's hash combines the hash chain of the goroutine executing it (its whole causal
// past), the canonical name of the object and the hash of the last conflicting event on
// that object (for a write also the commutative sum of the reads since). Two prefixes whose
// per-goroutine chains are equal are therefore linearisations of the same labelled partial
// order (Mazurkiewicz trace): they lead to the same state. Names never depend on creation
// order across goroutines: a goroutine is named by its parent's name and spawn count, an
// object by the chain of the goroutine that touches it first. Anything the hashing cannot
// order precisely (clock jumps, quiescence waits) mixes in a unique value, which only
// prevents matches: a missing match costs exploration time, a wrong match would lose
// schedules, so every approximation is towards "dependent".
type objState struct {
	name  uint64
	lastW uint64
	reads uint64
}

const (
	objStorage uint64 = 1<<62 + iota
	objClock
	objRand
	objHarness
	objGlobal
)

// exported names for shims and harness code
const (
	ObjStorage = objStorage
	ObjClock   = objClock
	ObjRand    = objRand
	ObjHarness = objHarness
)

func mix(h, x uint64) uint64 {
	h ^= x + 0x9e3779b97f4a7c15 + (h << 6) + (h >> 2)
	h *= 0xff51afd7ed558ccd
	h ^= h >> 33
	return h
}

func hashStr(s string) uint64 {
	h := uint64(14695981039346656037)
	for i := 0; i < len(s); i++ {
		h = (h ^ uint64(s[i])) * 1099511628211
	}
	return h
}

func (s *Sched) hbInitG(g *G, parent *G) {
	if !s.opts.HB {
		return
	}
	g.nameH = hashStr(g.name)
	g.chain = mix(g.nameH, 0x51)
	if parent != nil {
		// the spawn is an event of the parent; the child starts from the parent's past
		parent.setChain(s, mix(parent.chain, mix(g.nameH, 0x60)))
		g.chain = mix(g.chain, parent.chain)
	}
	s.hbSum += mix(g.nameH, g.chain)
}

func (g *G) setChain(s *Sched, c uint64) {
	s.hbSum -= mix(g.nameH, g.chain)
	g.chain = c
	s.hbSum += mix(g.nameH, g.chain)
}

func (s *Sched) hbObj(g *G, key uint64) *objState {
	o := s.objs[key]
	if o == nil {
		o = &objState{}
		if key >= 1<<62 {
			o.name = key // well-known global objects
		} else {
			g.objCtr++
			o.name = mix(mix(g.chain, 0x0b), g.objCtr)
		}
		if s.objs == nil {
			s.objs = map[uint64]*objState{}
		}
		s.objs[key] = o
	}
	return o
}

// event records that goroutine g performs an operation of the given kind on object key.
func (s *Sched) event(g *G, kind OpKind, key uint64, write bool) {
	if g == nil {
		return
	}
	o := s.hbObj(g, key)
	h := mix(mix(mix(g.chain, uint64(kind)), o.name), o.lastW)
	if write {
		h = mix(h, o.reads)
		o.lastW, o.reads = h, 0
	} else {
		o.reads += h
	}
	g.setChain(s, h)
}

// poison makes the fingerprint of this execution unique from here on.
func (s *Sched) poison(g *G) {
	s.hbUniq++
	u := mix(uint64(s.steps)<<20^s.hbUniq, 0x77)
	if g != nil {
		g.setChain(s, mix(g.chain, u))
	}
	s.hbSum += u
}

// Event is called by shims and harness code for operations that are not scheduling points
// (or in addition to them). key 0 is ignored.
func Event(kind OpKind, key uint64, write bool) {
	s := S
	if s == nil || !s.opts.HB || s.inHook || s.aborting || key == 0 {
		return
	}
	s.event(s.cur, kind, key, write)
}

// AddrKey is the event key of an atomic variable (its address; distinct from object ids).
func AddrKey(p uintptr) uint64 { return 1<<61 | uint64(p)&(1<<61-1) }

// hbPoint is called when goroutine g is chosen to perform its pending operation.
func (s *Sched) hbPoint(g *G) {
	p := &g.pend
	switch p.kind {
	case OpLock, OpLockAnnounce, OpOnce:
		s.event(g, p.kind, p.obj, true)
	case OpRLock, OpWait:
		s.event(g, p.kind, p.obj, false)
	case OpAtomic:
		s.event(g, p.kind, p.obj, !p.read)
	case OpChan, OpSelect:
		if len(g.cases) == 0 {
			s.event(g, p.kind, p.obj, true) // close
		}
		for _, c := range g.cases {
			if k := c.obj(); k != 0 {
				s.event(g, p.kind, k, true)
			}
		}
	case OpStorage:
		s.event(g, p.kind, objStorage, true)
	case OpStmt:
		s.event(g, p.kind, objGlobal, true)
	case OpUnlock:
		s.event(g, p.kind, p.obj, true)
	case OpSleep, OpQuiesce:
		s.poison(g)
	case OpResume, OpStart, OpYield, OpNone, OpPool:
	}
}

// hbPartner: goroutine g (parked) had its operation completed by the running goroutine.
func (s *Sched) hbPartner(g *G) {
	if s == nil || !s.opts.HB || s.cur == nil || g == nil {
		return
	}
	g.setChain(s, mix(mix(g.chain, 0x9a), s.cur.chain))
}

// HBKey is the fingerprint of the current state for the schedule search: the multiset of
// goroutine chains, the running goroutine, and the order of the live goroutines' ids (the
// default scheduler prefers low ids, so the continuation depends on it).
func (s *Sched) hbKey(cur *G) uint64 {
	k := s.hbSum
	if cur != nil {
		k = mix(k, cur.nameH)
	}
	for _, g := range s.gs {
		if !g.done {
			k = mix(k, g.nameH)
		}
	}
	return k
}
