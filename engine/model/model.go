// Package model holds the boring reference models: a sorted map, a cursor over a sorted
// list, and the "explain by a subset of issued batches" oracle.
package model

import (
	"sort"
)

// Cmp is a user-key comparison function.
type Cmp func(a, b []byte) int

// KV is an ordered map under a comparer.
type KV struct {
	M   map[string]string
	Cmp Cmp
}

func NewKV(c Cmp) *KV { return &KV{M: map[string]string{}, Cmp: c} }

func (m *KV) Put(k, v string) { m.M[k] = v }
func (m *KV) Del(k string)    { delete(m.M, k) }
func (m *KV) Get(k string) (string, bool) {
	v, ok := m.M[k]
	return v, ok
}

func (m *KV) Clone() *KV {
	n := &KV{M: make(map[string]string, len(m.M)), Cmp: m.Cmp}
	for k, v := range m.M {
		n.M[k] = v
	}
	return n
}

func (m *KV) Equal(o *KV) bool {
	if len(m.M) != len(o.M) {
		return false
	}
	for k, v := range m.M {
		if w, ok := o.M[k]; !ok || w != v {
			return false
		}
	}
	return true
}

// Pair is one key/value.
type Pair struct{ K, V string }

// Sorted returns the pairs in comparer order.
func (m *KV) Sorted() []Pair {
	ps := make([]Pair, 0, len(m.M))
	for k, v := range m.M {
		ps = append(ps, Pair{k, v})
	}
	sort.Slice(ps, func(i, j int) bool { return m.Cmp([]byte(ps[i].K), []byte(ps[j].K)) < 0 })
	return ps
}

// Range returns the sorted pairs with start <= k < limit (nil bound = unbounded).
func (m *KV) Range(start, limit []byte) []Pair {
	var out []Pair
	for _, p := range m.Sorted() {
		if start != nil && m.Cmp([]byte(p.K), start) < 0 {
			continue
		}
		if limit != nil && m.Cmp([]byte(p.K), limit) >= 0 {
			continue
		}
		out = append(out, p)
	}
	return out
}

// BatchOp is one record of a batch.
type BatchOp struct {
	Del  bool
	K, V string
}

// Batch is an ordered list of records applied atomically.
type Batch []BatchOp

func (m *KV) Apply(b Batch) {
	for _, o := range b {
		if o.Del {
			m.Del(o.K)
		} else {
			m.Put(o.K, o.V)
		}
	}
}

// Cursor is the reference iterator over a sorted list: position -1 = before first (SOI),
// len = after last (EOI).
type Cursor struct {
	L   []Pair
	Cmp Cmp
	Pos int
	// Dir mirrors iterator semantics: a fresh cursor is at SOI.
}

func NewCursor(l []Pair, c Cmp) *Cursor { return &Cursor{L: l, Cmp: c, Pos: -1} }

func (c *Cursor) Valid() bool { return c.Pos >= 0 && c.Pos < len(c.L) }
func (c *Cursor) First() bool {
	if len(c.L) == 0 {
		c.Pos = -1 // goleveldb parks an empty iterator after a failed First at EOI/SOI; Valid is false either way
		c.Pos = len(c.L)
		return false
	}
	c.Pos = 0
	return true
}
func (c *Cursor) Last() bool {
	if len(c.L) == 0 {
		c.Pos = -1
		return false
	}
	c.Pos = len(c.L) - 1
	return true
}
func (c *Cursor) Seek(k []byte) bool {
	i := sort.Search(len(c.L), func(i int) bool { return c.Cmp([]byte(c.L[i].K), k) >= 0 })
	c.Pos = i
	return i < len(c.L)
}
func (c *Cursor) Next() bool {
	if c.Pos < len(c.L) {
		c.Pos++
	}
	return c.Valid()
}
func (c *Cursor) Prev() bool {
	if c.Pos >= 0 {
		c.Pos--
	}
	return c.Valid()
}
func (c *Cursor) Key() string   { return c.L[c.Pos].K }
func (c *Cursor) Value() string { return c.L[c.Pos].V }

// Explain reports whether some set S with acked ⊆ S ⊆ issued (issued given in order;
// acked[i] says batch i must be included) applied in order yields exactly observed.
// It decides per key: since batches are atomic, a brute-force search over subsets of the
// non-acked batches is used (their number is small in every caller).
func Explain(issued []Batch, acked []bool, observed map[string]string, cmp Cmp) (bool, []bool) {
	var opt []int
	for i := range issued {
		if !acked[i] {
			opt = append(opt, i)
		}
	}
	if len(opt) > 20 {
		panic("model.Explain: too many optional batches")
	}
	in := make([]bool, len(issued))
	for mask := 0; mask < 1<<len(opt); mask++ {
		for i := range in {
			in[i] = acked[i]
		}
		for j, i := range opt {
			if mask&(1<<j) != 0 {
				in[i] = true
			}
		}
		m := map[string]string{}
		for i, b := range issued {
			if !in[i] {
				continue
			}
			for _, o := range b {
				if o.Del {
					delete(m, o.K)
				} else {
					m[o.K] = o.V
				}
			}
		}
		if len(m) != len(observed) {
			continue
		}
		ok := true
		for k, v := range m {
			if w, has := observed[k]; !has || w != v {
				ok = false
				break
			}
		}
		if ok {
			return true, append([]bool(nil), in...)
		}
	}
	return false, nil
}
