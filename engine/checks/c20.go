package checks

import (
	"verif/explore"
)

// C20 — no shared buffers across the API boundary. The harness passes freshly allocated
// key/value/batch buffers, overwrites them with 0xEE as soon as each call returns,
// overwrites every Get result after comparing it, and keeps reading. Because later reads
// must still agree with the model (which holds private copies), any aliasing between
// caller buffers and DB state surfaces as a wrong answer. Checks run after EVERY step of
// every sequence (the scribbling itself is part of the program).

var c20Alpha = []string{"put:a", "put:b", "putL:c", "del:a", "b1", "b2", "cr", "q", "re", "snap", "rel:0", "iter", "reliter", "otr", "tput:a", "twrite", "commit", "discard"}

func init() {
	register(&Check{
		ID:     "C20",
		Level:  "model_checking",
		Worker: seqWorker(nil),
		Main: func(c *explore.Ctx) {
			var specs []seqSpec
			d := 4
			if c.Tier == "thorough" {
				d = 5
			}
			for _, cfg := range []string{"flushy", "nopool", "nocache", "nopoolcache", "snappy", "tinycache", "default", "defaultnopool", "bigbatch"} {
				dd := d
				if c.Tier == "quick" && (cfg == "flushy" || cfg == "nopool" || cfg == "bigbatch") {
					dd = d + 1 // the three option sets where data moves between buffers, pool and tables most
				}
				specs = append(specs, seqSpec{Cfg: cfg + "/bytewise", Alpha: c20Alpha, Depth: dd, Checks: "db,views", Mode: "scribble,every"})
			}
			runSpecs(c, "C20", specs,
				"breadth-first search over operation sequences on the grid {buffer pool on/off} x {block cache on/off/tiny} x {snappy/none} x {data in tables / in buffers}; every argument buffer is overwritten right after its call returns, every Get result after it was compared; full read-back (DB, snapshots, held iterator, transaction) after every step of every sequence against a model holding private copies",
				[]string{"state de-duplication ignores cache contents (checks nevertheless run along every explored path)", "iterator Key/Value stability is checked between moves of the scanning iterator"})
		},
	})
}
