#!/bin/bash
# Offline setup: compile the engine once against the current /repo to warm the build cache.
set -e
ROOT="$(cd "$(dirname "$0")/.." && pwd)"
TMP="$(mktemp -d /tmp/verif-setup.XXXXXX)"
trap 'rm -rf "$TMP"' EXIT
"$ROOT/scripts/build.sh" "$TMP"
"$ROOT/scripts/build.sh" "$TMP/stmt" -stmt leveldb/memdb
"$ROOT/scripts/build.sh" "$TMP/stmt2" -stmt leveldb/cache
"$ROOT/scripts/build.sh" "$TMP/stmt3" -stmt "$("$ROOT/scripts/stmtfiles.sh")"
(cd "$ROOT/engine" && GOFLAGS=-mod=mod GOPROXY=off GOSUMDB=off GOTOOLCHAIN=local go build -race -o "$TMP/racepass" ./cmd/racepass)
echo setup ok
