package checks

import (
	"encoding/json"
	"fmt"
	"hash/fnv"
	"sort"
	"strings"

	"github.com/syndtr/goleveldb/leveldb"
	"github.com/syndtr/goleveldb/leveldb/storage"
	"verif/explore"
	"verif/harness"
	"verif/vsched"
	"verif/vstor"
)

// C07 — files are deleted only when unneeded, and then they are deleted.
// (a) sequence search with held iterators and snapshots: after every step every held view is
//     re-read completely; no table may ever be removed while a reader of it is open; whenever
//     no view is held (and after reopen) the storage listing must equal live tables + live
//     journal(s) + live manifest once background work is quiescent.
// (b) REF: breadth-first search over event sequences on the REAL session reference loop
//     (pin / unpin / commit / failed commit / 5 virtual minutes), also started behind 254..300
//     commits pinned by one old version (the >256 queue path).
// (c) schedule search: iterator create/scan/release racing flush + compaction.
// (d) steady state: repeated overwrite + full compaction does not accumulate table entries.

var c07AlphaTr = []string{"put:a", "q", "otr", "tput:a", "tput:b", "titer", "reliter", "commit", "discard", "re", "cr"}
var c07TrPrefixes = [][]string{
	{"otr", "tput:a", "tput:b", "titer", "discard"},
	{"otr", "tput:a", "tput:b", "tput:a", "titer", "discard"},
	{"otr", "tput:a", "tput:b", "titer", "commit"},
	{"put:a", "q", "otr", "tput:b", "tput:a", "titer", "discard"},
}

var c07Alpha = []string{"put:a", "put:b", "del:a", "b1", "cr", "q", "snap", "rel:0", "iter", "iterS", "reliter", "re", "otr", "tput:a", "discard"}

// ---- (b) REF ----

type refTask struct {
	Prefix int      `json:"prefix"` // commits made behind one pinned version before the search
	Events []string `json:"events"`
}

type refResult struct {
	Key     uint64   `json:"key"`
	Enabled []string `json:"enabled"`
	Viol    []string `json:"viol,omitempty"`
	Files   int      `json:"files"`
}

func runRef(t *refTask) *refResult {
	res := &refResult{}
	bad := func(f string, a ...any) { res.Viol = append(res.Viol, fmt.Sprintf(f, a...)) }
	r := vsched.Run(vsched.Options{MaxSteps: 1 << 30}, func() {
		stor := vstor.New()
		vs, err := leveldb.VerifNewSession(stor, nil)
		if err != nil {
			bad("session: %v", err)
			return
		}
		var pins []*leveldb.VerifPin
		live := func() []int64 { return vs.Current() }
		commit := func(nAdd int, del []int64) error {
			var add []int64
			for i := 0; i < nAdd; i++ {
				n, err := vs.AllocFile()
				if err != nil {
					return err
				}
				add = append(add, n)
			}
			return vs.Commit(add, del)
		}
		check := func(when string) {
			vsched.Quiesce()
			need := map[int64]bool{}
			for _, n := range live() {
				need[n] = true
			}
			for _, p := range pins {
				for _, n := range p.Files {
					need[n] = true
				}
			}
			for n := range need {
				if !stor.Exists(storage.FileDesc{Type: storage.TypeTable, Num: n}) {
					bad("%s: table %d is needed by the current or a pinned version but was removed", when, n)
					return
				}
			}
		}
		// initial: two files
		if err := commit(2, nil); err != nil {
			bad("setup commit: %v", err)
			return
		}
		if t.Prefix > 0 {
			old := vs.Pin()
			pins = append(pins, old)
			for i := 0; i < t.Prefix; i++ {
				cur := live()
				if err := commit(1, cur[:1]); err != nil {
					bad("prefix commit %d: %v", i, err)
					return
				}
			}
			check("after prefix")
		}
		for i, ev := range t.Events {
			switch {
			case ev == "pin":
				pins = append(pins, vs.Pin())
			case strings.HasPrefix(ev, "unpin"):
				k := int(ev[5] - '0')
				pins[k].Release()
				pins = append(pins[:k], pins[k+1:]...)
			case ev == "commit":
				cur := live()
				var del []int64
				if len(cur) > 0 {
					del = cur[:1]
				}
				if err := commit(1, del); err != nil {
					bad("event %d commit: %v", i, err)
					return
				}
			case ev == "add":
				if err := commit(1, nil); err != nil {
					bad("event %d commit: %v", i, err)
					return
				}
			case ev == "fail":
				// a commit whose manifest sync fails: the new version id is abandoned
				stor.Rules = []*vstor.Rule{{Kind: vstor.KSync, Types: storage.TypeManifest, Nth: 1, Count: 1}}
				cur := live()
				n, _ := vs.AllocFile()
				var del []int64
				if len(cur) > 0 {
					del = cur[:1]
				}
				err := vs.Commit([]int64{n}, del)
				stor.Rules = nil
				if err == nil {
					bad("event %d: injected manifest sync failure did not fail the commit", i)
					return
				}
				// the caller's revert: remove the table that never became live
				stor.Remove(storage.FileDesc{Type: storage.TypeTable, Num: n})
			case ev == "tick":
				vsched.Sleep(301e9)
			}
			check(fmt.Sprintf("after event %d %q", i, ev))
			if len(res.Viol) > 0 {
				return
			}
		}
		// state key and enabled events
		h := fnv.New64a()
		cur := live()
		fmt.Fprintf(h, "cur=%v;", rel(cur, cur))
		for _, p := range pins {
			fmt.Fprintf(h, "pin=%v@%d;", rel(p.Files, cur), vs.CurrentID()-p.ID)
		}
		var st []int64
		for _, fd := range stor.Files() {
			if fd.Type == storage.TypeTable {
				st = append(st, fd.Num)
			}
		}
		fmt.Fprintf(h, "stor=%v", rel(st, cur))
		res.Key = h.Sum64()
		res.Files = len(st)
		res.Enabled = []string{"commit", "add", "fail", "tick"}
		if len(pins) < 3 {
			res.Enabled = append(res.Enabled, "pin")
		}
		for i := range pins {
			res.Enabled = append(res.Enabled, fmt.Sprintf("unpin%d", i))
		}
		// closing oracle on a copy of the run: release everything, quiesce: storage == current
		for _, p := range pins {
			p.Release()
		}
		pins = nil
		vsched.Quiesce()
		vsched.Sleep(301e9)
		vsched.Quiesce()
		want := map[int64]bool{}
		for _, n := range live() {
			want[n] = true
		}
		for _, fd := range stor.Files() {
			if fd.Type != storage.TypeTable {
				continue
			}
			if !want[fd.Num] {
				bad("after releasing every pin: obsolete table %d was not deleted (current version holds %v)", fd.Num, live())
				break
			}
			delete(want, fd.Num)
		}
		for n := range want {
			bad("after releasing every pin: table %d of the current version is missing", n)
		}
		vs.Close()
	})
	if r.Verdict != vsched.Completed {
		res.Viol = append(res.Viol, fmt.Sprintf("execution ended with %s: %v %v", r.Verdict, r.PanicValue, r.Blocked))
	}
	return res
}

// rel renders file numbers relative to the smallest current one, so that histories of
// different length can reach equal keys.
func rel(a, cur []int64) []int64 {
	base := int64(0)
	if len(cur) > 0 {
		base = cur[0]
		for _, c := range cur {
			if c < base {
				base = c
			}
		}
	}
	out := make([]int64, len(a))
	for i, x := range a {
		out[i] = x - base
	}
	sort.Slice(out, func(i, j int) bool { return out[i] < out[j] })
	return out
}

func refBFS(c *explore.Ctx, pool *explore.Pool, prefix, depth int) (states, transitions int, exh bool) {
	exh = true
	seen := map[uint64]bool{}
	type node struct {
		ev []string
		en []string
	}
	run := func(tasks []refTask) []refResult {
		raw := make([][]byte, len(tasks))
		for i, t := range tasks {
			raw[i] = explore.MustJSON(t)
		}
		out := make([]refResult, len(tasks))
		pool.Map(raw, func(i int, b []byte, err error) {
			if err != nil {
				out[i].Viol = explore.CrashViol(err)
				return
			}
			json.Unmarshal(b, &out[i])
		})
		return out
	}
	root := run([]refTask{{Prefix: prefix}})[0]
	if len(root.Viol) > 0 {
		c.Report(&explore.Violation{Property: "C07", Sig: map[string]string{"check": "ref", "prefix": fmt.Sprint(prefix), "events": "", "effect": root.Viol[0]}, Detail: map[string]any{"task": refTask{Prefix: prefix}, "result": root}})
		return 0, 0, false
	}
	seen[root.Key] = true
	states = 1
	frontier := []node{{nil, root.Enabled}}
	for d := 1; d <= depth && len(frontier) > 0; d++ {
		if c.OutOfTime() {
			exh = false
			break
		}
		var tasks []refTask
		for _, n := range frontier {
			for _, e := range n.en {
				tasks = append(tasks, refTask{Prefix: prefix, Events: append(append([]string{}, n.ev...), e)})
			}
		}
		results := run(tasks)
		var next []node
		for i, r := range results {
			transitions++
			if len(r.Viol) > 0 {
				c.Report(&explore.Violation{Property: "C07", Sig: map[string]string{"check": "ref", "prefix": fmt.Sprint(prefix), "events": strings.Join(tasks[i].Events, " "), "effect": r.Viol[0]}, Detail: map[string]any{"task": tasks[i], "result": r}})
				exh = false
				continue
			}
			if seen[r.Key] {
				continue
			}
			seen[r.Key] = true
			states++
			next = append(next, node{tasks[i].Events, r.Enabled})
		}
		frontier = next
	}
	return
}

// ---- (d) steady state ----

func runSteady(cfg string) []string {
	var viol []string
	r := vsched.Run(vsched.Options{MaxSteps: 1 << 30}, func() {
		w := harness.NewWorld(harness.Config{Name: cfg})
		if !w.MustOpen() {
			viol = append(viol, w.Viol...)
			return
		}
		var counts []int
		for round := 1; round <= 6; round++ {
			for _, op := range []string{"put:a", "put:b", "putL:c", "del:b", "put:b", "cr", "q"} {
				w.Apply(op)
			}
			w.CheckDB()
			_, st := harness.CheckLSM(w.Stor, w.DB.VerifState(), w.Cfg)
			counts = append(counts, st.Entries)
			w.CheckResidue(fmt.Sprintf("steady state round %d", round))
			if w.Failed() {
				break
			}
		}
		viol = append(viol, w.Viol...)
		for i := 2; i < len(counts); i++ {
			if counts[i] > counts[1] {
				viol = append(viol, fmt.Sprintf("table entries accumulate across overwrite+compact rounds: %v", counts))
				break
			}
		}
		w.Close()
	})
	if r.Verdict != vsched.Completed {
		viol = append(viol, fmt.Sprintf("execution ended with %s: %v", r.Verdict, r.PanicValue))
	}
	return viol
}

func init() {
	hk := &seqHooks{After: func(w *harness.World, t *seqTask, r *seqResult) {
		// no table may be removed while one of its readers is open
		for _, o := range w.Stor.Ops {
			_ = o
		}
		if n := w.Stor.RemovedWhileOpen; n > 0 {
			w.Viol = append(w.Viol, fmt.Sprintf("%d file(s) were removed while a reader or writer of them was still open", n))
			return
		}
		if len(w.Snaps) == 0 && len(w.Iters) == 0 && w.Tr == nil {
			w.CheckResidue("no view held")
			r.Extra["residue_checks"]++
		}
	}}
	seqW := seqWorker(hk)
	dfsW := dfsWorker(map[string]func(json.RawMessage) explore.RunFunc{"conc": func(params json.RawMessage) explore.RunFunc {
		var p concParams
		json.Unmarshal(params, &p)
		return func(prefix []int) *explore.Exec {
			return concExec(&p, prefix, func(w *harness.World, cr *concRun) {
				if n := w.Stor.RemovedWhileOpen; n > 0 {
					cr.Viol = append(cr.Viol, fmt.Sprintf("%d file(s) removed while still open", n))
				}
				if cr.P == nil || len(cr.P.Faults) == 0 {
					// (with a fault armed a failed commit may still sit in its back-off: those drivers
					// ask for the residue check after settling instead, concParams.Residue)
					w.CheckResidue("after the concurrent window")
					cr.Viol = append(cr.Viol, w.Viol...)
				}
			})
		}
	}})
	register(&Check{
		ID:    "C07",
		Level: "model_checking",
		Worker: func(task []byte) []byte {
			var probe struct {
				Scenario string   `json:"scenario"`
				Events   []string `json:"events"`
				Prefix   *int     `json:"prefix"`
				Steady   string   `json:"steady"`
			}
			json.Unmarshal(task, &probe)
			switch {
			case probe.Steady != "":
				return explore.MustJSON(map[string]any{"viol": runSteady(probe.Steady)})
			case probe.Scenario != "":
				return dfsW(task)
			case probe.Prefix != nil:
				var t refTask
				json.Unmarshal(task, &t)
				return explore.MustJSON(runRef(&t))
			}
			return seqW(task)
		},
		Main: func(c *explore.Ctx) {
			quick := c.Tier == "quick"
			pool := explore.NewPool(0, "worker", "C07")
			// (b) REF
			rd := 6
			if !quick {
				rd = 8
			}
			refPer := map[string]any{}
			prefixes := []int{0, 254, 255, 256, 257, 300}
			for _, p := range prefixes {
				d := rd
				if p > 0 {
					d = rd - 2
				}
				st, tr, ex := refBFS(c, pool, p, d)
				c.Add("ref_states", st)
				c.Add("ref_transitions", tr)
				c.Add("states", st)
				c.Add("transitions", tr)
				c.Add("traces_validated_against_impl", tr)
				refPer[fmt.Sprint(p)] = map[string]any{"states": st, "transitions": tr, "depth": d, "exhaustive": ex}
				c.SetExhaustive(ex)
				fmt.Printf("  ref-loop prefix=%-3d depth=%d states=%d transitions=%d\n", p, d, st, tr)
			}
			c.Coverage["ref_loop"] = refPer
			// (d) steady state
			var raw [][]byte
			cfgs := []string{"flushy/bytewise", "deep/bytewise", "wide/bytewise", "tinycache/bytewise"}
			for _, cfg := range cfgs {
				raw = append(raw, explore.MustJSON(map[string]string{"steady": cfg}))
			}
			pool.Map(raw, func(i int, b []byte, err error) {
				var r struct {
					Viol []string `json:"viol"`
				}
				if err != nil {
					r.Viol = explore.CrashViol(err)
				} else {
					json.Unmarshal(b, &r)
				}
				c.Add("steady_state_runs", 1)
				for _, v := range r.Viol {
					c.Report(&explore.Violation{Property: "C07", Sig: map[string]string{"check": "steady", "config": cfgs[i], "effect": v}, Detail: map[string]any{"task": map[string]string{"steady": cfgs[i]}, "violation": v}})
				}
			})
			pool.Close()
			// (c) schedules
			drivers := []concParams{
				{Name: "iterator-vs-flush-compact", Cfg: "flushy/bytewise", Pre: []string{"put:a", "put:b", "q"}, Clients: [][]string{{"iterscan"}, {"put:a", "put:a"}}, QB: 2, TB: 3},
				{Name: "iterator-vs-compactrange", Cfg: "tinycache/bytewise", Pre: []string{"put:a", "put:b", "put:c", "q"}, Clients: [][]string{{"iterscan", "get:a"}, {"cr"}}, QB: 1, TB: 2},
			}
			// files become obsolete while everything else is busy: after the window has settled only
			// live files remain - also when a commit failed once on the way (manifest sync fault) and
			// when removed tables give their numbers back (evict option set)
			drivers = append(drivers,
				concParams{Name: "writers-vs-compactrange-residue", Cfg: "flushy/bytewise", Pre: []string{"put:a", "put:b"}, Clients: [][]string{{"put:a", "put:b"}, {"cr"}, {"get:a"}}, QB: 1, TB: 2, Residue: true},
				concParams{Name: "evict-writers-vs-compactrange-residue", Cfg: "evict/bytewise", Pre: []string{"put:a", "put:b", "put:c"}, Clients: [][]string{{"put:a", "put:b"}, {"cr"}, {"get:a"}}, QB: 1, TB: 2, Residue: true})
			for nth := 1; nth <= 3; nth++ {
				drivers = append(drivers, concParams{Name: fmt.Sprintf("writers-vs-compactrange+manifest-sync-fault#%d-residue", nth), Cfg: "flushy/bytewise", Pre: []string{"put:a", "put:b"}, Clients: [][]string{{"put:a", "put:b", "put:a"}, {"cr"}, {"get:a"}},
					Faults: []faultSpec{{Kind: int(vstor.KSync), Type: int(storage.TypeManifest), Nth: nth, Count: 1, Mode: int(vstor.ModeFail), Name: fmt.Sprintf("sync/manifest#%d x1", nth)}}, QB: 1, TB: 2, Residue: true})
			}
			runConcChecks(c, "C07", drivers, 2, 0)
			// (a) sequences
			d := 4
			if !quick {
				d = 5
			}
			var specs []seqSpec
			for _, cfg := range []string{"flushy/bytewise", "deep/bytewise", "tinycache/bytewise", "rot/bytewise"} {
				specs = append(specs, seqSpec{Cfg: cfg, Alpha: c07Alpha, Depth: d, Checks: "db,views"})
			}
			// transactions whose iterators outlive them, under the two settings that allow a removed
			// table's number to be handed out again (no block cache / evict-on-remove): searched from
			// the empty DB and from states where a discarded / committed transaction's iterator is
			// still held
			td := 6
			if !quick {
				td = 7
			}
			for _, cfg := range []string{"nocache/bytewise", "evict/bytewise"} {
				specs = append(specs, seqSpec{Cfg: cfg, Alpha: c07AlphaTr, Depth: td, Checks: "db,views", Mode: "tr"})
				specs = append(specs, seqSpec{Cfg: cfg, Alpha: c07AlphaTr, Depth: td - 1, Checks: "db,views", Mode: "from-held-transaction-iterator", Prefixes: c07TrPrefixes})
			}
			runSpecs(c, "C07", specs,
				"(a) BFS over DB operation sequences with held iterators, snapshots, discarded transactions and reopen: after every transition every held view is re-read completely, no file was ever removed while one of its readers/writers was open, and whenever no view is held the storage listing equals live tables + live journal(s) + live manifest once quiescent (x_residue_checks); (b) BFS over event sequences {pin, unpin i, commit replacing a table, commit adding a table, commit failing at the manifest sync (abandoned version id), 5 virtual minutes} on the REAL session reference loop, from the initial state and from states 254/255/256/257/300 commits behind one pinned version; invariant after every event: every table of the current or a pinned version exists; after releasing every pin and settling: storage tables == current version (ref_*); (c) schedule search (deviation bound) of iterator scan racing flush/compaction/CompactRange; (d) 6 rounds of overwrite + delete + full compaction per configuration: table entries must not grow after round 2",
				[]string{"(b) drives session.commit / version pin-release through an overlay-added in-package driver with synthetic one-table records; the reference loop, setVersion, tOps.remove and the file cache are the real code", "space reclamation is checked as 'entries do not accumulate', the certainly-implied reading of that clause"})
		},
	})
}
