package checks

import (
	"bytes"
	"encoding/json"
	"fmt"
	"io"

	"github.com/syndtr/goleveldb/leveldb/journal"
	"verif/explore"
)

// C12 — journal framing. Exhaustive finite-domain enumeration on the real journal.Writer /
// journal.Reader: every tuple of record lengths from a boundary-hitting set x every flush
// pattern round-trips (strict and tolerant); every truncation offset and every single-byte
// alteration (3 patterns) of the selected streams is read back and must never invent,
// reorder or (outside the damaged 32 KiB block / beyond the cut) lose a record.

const jBlock = 32768

var c12Lens = []int{0, 1, 7, 32761, 32760, 32759, 32758, 32757, 32756, 32755, 32754, 32753, 32768, 32769, 65539}

type c12Task struct {
	Kind   string  `json:"kind"` // roundtrip | trunc | flip | zero
	Lens   []int   `json:"lens"`
	Mask   int     `json:"mask"` // bit i: Flush after record i
	From   int     `json:"from"` // damage offsets [From, To)
	To     int     `json:"to"`
	Near   bool    `json:"near"`             // only offsets within 16 bytes of a chunk/block boundary
	Fill   int     `json:"fill,omitempty"`   // record content: 0 position-dependent pattern, 1 all zero bytes, 2 one repeated byte per record
	Tuples [][]int `json:"tuples,omitempty"` // roundtrip: many tuples per task (all masks each)
}

type c12Result struct {
	Evals    int      `json:"evals"`
	Effect   int      `json:"effect"` // damaged inputs on which the damage was observable
	Viol     []string `json:"viol,omitempty"`
	Streams  int      `json:"streams"`
	MaxBytes int      `json:"max_bytes"`
}

// nestedPayload is an adversarial record content: n bytes made of back-to-back well-formed
// 8-byte journal chunks (type "full", one payload byte). A reader that lands anywhere on an
// 8-byte boundary inside it - because it trusted a length field it had not verified - finds
// records that were never written.
var nestedUnit []byte

func nestedPayload(n int) []byte {
	if nestedUnit == nil {
		var buf bytes.Buffer
		w := journal.NewWriter(&buf)
		ww, _ := w.Next()
		ww.Write([]byte{0xA7})
		w.Close()
		nestedUnit = append([]byte(nil), buf.Bytes()[:8]...)
	}
	b := make([]byte, n)
	for i := range b {
		b[i] = nestedUnit[i%8]
	}
	return b
}

// c12Fill selects the record content of the task being run (see c12Task.Fill): content that equals
// what a reader's buffer already holds (zeros in a fresh buffer, the previous block's bytes at the
// same offsets) is what makes a read beyond the end of the data go unnoticed.
var c12Fill int

// recBytes: the content of record idx; a negative length -n asks for nestedPayload(n).
func recBytes(idx, n int) []byte {
	if n < 0 {
		return nestedPayload(-n)
	}
	b := make([]byte, n)
	switch c12Fill {
	case 1:
		return b
	case 2:
		for i := range b {
			b[i] = byte(0x5A + idx) // per record, so that records stay distinguishable
		}
		return b
	}
	for i := range b {
		b[i] = byte(31*idx + 7*i + i>>8 + 1)
	}
	return b
}

// buildStream writes the records and returns the stream plus the byte extent of each
// record's chunks (first header byte .. last payload byte).
func buildStream(lens []int, mask int) ([]byte, [][2]int, error) {
	var buf bytes.Buffer
	w := journal.NewWriter(&buf)
	ext := make([][2]int, len(lens))
	for i, n := range lens {
		start := int(w.Size())
		if jBlock-start%jBlock < 7 && start%jBlock != 0 {
			// header would not fit: the writer pads and starts in the next block
			start = (start/jBlock + 1) * jBlock
		}
		ww, err := w.Next()
		if err != nil {
			return nil, nil, err
		}
		if _, err := ww.Write(recBytes(i, n)); err != nil {
			return nil, nil, err
		}
		if mask&(1<<i) != 0 {
			if err := w.Flush(); err != nil {
				return nil, nil, err
			}
		}
		// the record ends where the writer stands now (before the next header)
		ext[i] = [2]int{start, int(w.Size())}
	}
	if err := w.Close(); err != nil {
		return nil, nil, err
	}
	return buf.Bytes(), ext, nil
}

// c12ByteWise makes readAll consume every record with ReadByte instead of Read.
var c12ByteWise bool

type dropCount struct{ n int }

func (d *dropCount) Drop(err error) { d.n++ }

// readAll reads the stream the way the DB does. Returns yielded records, the terminal error
// (nil for clean EOF) and whether a panic occurred.
func readAll(data []byte, strict bool) (recs [][]byte, rerr error, panicked any) {
	defer func() {
		if r := recover(); r != nil {
			panicked = r
		}
	}()
	// with and without a Dropper (the package's documented example passes nil): alternate by
	// stream length, so that every stream shape is read both ways across the enumeration
	var d journal.Dropper = &dropCount{}
	if len(data)%2 == 1 {
		d = nil
	}
	r := journal.NewReader(bytes.NewReader(data), d, strict, true)
	for guard := 0; guard < 1000; guard++ {
		rd, err := r.Next()
		if err == io.EOF {
			return recs, nil, nil
		}
		if err != nil {
			return recs, err, nil
		}
		var b []byte
		if c12ByteWise {
			// through the io.ByteReader side of the record reader (how manifest records are decoded)
			br, ok := rd.(io.ByteReader)
			if !ok {
				return recs, fmt.Errorf("record reader is not an io.ByteReader"), nil
			}
			for {
				var c byte
				c, err = br.ReadByte()
				if err != nil {
					break
				}
				b = append(b, c)
			}
			if err == io.EOF {
				err = nil
			}
		} else {
			b, err = io.ReadAll(rd)
		}
		if err != nil {
			if !strict && err == io.ErrUnexpectedEOF {
				continue
			}
			return recs, err, nil
		}
		recs = append(recs, b)
	}
	return recs, fmt.Errorf("reader did not terminate"), nil
}

func sameRecs(got [][]byte, lens []int) bool {
	if len(got) != len(lens) {
		return false
	}
	for i := range got {
		if !bytes.Equal(got[i], recBytes(i, lens[i])) {
			return false
		}
	}
	return true
}

// checkDamaged applies the containment oracle. damagedFrom/To: byte range of damage
// (truncation: [t, inf)). Returns a violation text or "".
// tornHeader: if cut t falls strictly inside the 7-byte header of a first/full chunk of the
// undamaged stream, returns the number of header bytes that survive; else 0.
func tornHeader(full []byte, t int) int {
	for o := 0; o+7 <= len(full); {
		if jBlock-o%jBlock < 7 {
			o = (o/jBlock + 1) * jBlock
			continue
		}
		length := int(full[o+4]) | int(full[o+5])<<8
		typ := full[o+6]
		if (typ == 1 || typ == 2) && t > o && t < o+7 {
			return t - o
		}
		o += 7 + length
	}
	return 0
}

func checkDamaged(full, data []byte, lens []int, ext [][2]int, cutAt int, flipAt int) (string, bool) {
	// records consumed with Read, then the same with ReadByte
	v, effect := checkDamagedOnce(full, data, lens, ext, cutAt, flipAt)
	if v != "" {
		return v, effect
	}
	c12ByteWise = true
	defer func() { c12ByteWise = false }()
	v, e2 := checkDamagedOnce(full, data, lens, ext, cutAt, flipAt)
	if v != "" {
		return "records read with ReadByte: " + v, true
	}
	return "", effect || e2
}

func checkDamagedOnce(full, data []byte, lens []int, ext [][2]int, cutAt int, flipAt int) (string, bool) {
	effect := false
	for _, strict := range []bool{false, true} {
		got, err, pan := readAll(data, strict)
		if pan != nil {
			return fmt.Sprintf("reader panicked (strict=%v): %v", strict, pan), true
		}
		// nothing invented, order preserved: got must be a subsequence of the originals
		j := 0
		var matched []int
		for _, g := range got {
			found := false
			for j < len(lens) {
				if bytes.Equal(g, recBytes(j, lens[j])) {
					matched = append(matched, j)
					j++
					found = true
					break
				}
				j++
			}
			if !found {
				return fmt.Sprintf("reader (strict=%v) yielded a record of %d bytes that was not written at that position", strict, len(g)), true
			}
		}
		if len(got) != len(lens) || err != nil {
			effect = true
		}
		// nothing yielded that the stream no longer holds in full (the match is the earliest record
		// with that content, so this can only be too lenient)
		if cutAt >= 0 {
			for _, m := range matched {
				if ext[m][1] > cutAt {
					return fmt.Sprintf("reader (strict=%v) yielded record %d (bytes %d..%d) although the stream ends at %d", strict, m, ext[m][0], ext[m][1], cutAt), true
				}
			}
		}
		have := map[int]bool{}
		for _, m := range matched {
			have[m] = true
		}
		if strict {
			// a prefix; if incomplete, an error unless the cut is exactly at a record boundary
			for i, m := range matched {
				if m != i {
					return fmt.Sprintf("strict reader skipped record %d and continued", i), true
				}
			}
			if len(matched) < len(lens) && err == nil {
				atBoundary := false
				if cutAt >= 0 {
					if cutAt == 0 {
						atBoundary = true
					}
					for _, e := range ext {
						if cutAt == e[1] || (cutAt >= e[1] && cutAt <= roundUpPad(e[1])) {
							atBoundary = true
						}
					}
				}
				if !atBoundary {
					where := "cut inside a chunk payload or a continuation chunk"
					if n := tornHeader(full, cutAt); n > 0 {
						where = fmt.Sprintf("cut inside the header of a record's first chunk: %d trailing header bytes", n)
					}
					return fmt.Sprintf("strict reader ended cleanly after %d of %d records without a corruption error (%s)", len(matched), len(lens), where), true
				}
			}
			continue
		}
		// tolerant: every record with no chunk in the damaged block (and before the cut) is yielded
		for i, e := range ext {
			if have[i] {
				continue
			}
			lost := false
			if cutAt >= 0 {
				// lost if it extends beyond the cut or touches the block containing the cut
				if e[1] > cutAt || touchesBlock(e, cutAt/jBlock) {
					lost = true
				}
			}
			if flipAt >= 0 && touchesBlock(e, flipAt/jBlock) {
				lost = true
			}
			if !lost {
				return fmt.Sprintf("tolerant reader lost record %d (bytes %d..%d) which does not touch the damaged block", i, e[0], e[1]), true
			}
		}
	}
	return "", effect
}

func roundUpPad(end int) int {
	// the writer may pad up to 6 zero bytes to the block end after a record
	if r := jBlock - end%jBlock; r < 7 {
		return end + r
	}
	return end
}

func touchesBlock(e [2]int, b int) bool {
	if e[1] == e[0] {
		return e[0]/jBlock == b
	}
	return e[0]/jBlock <= b && (e[1]-1)/jBlock >= b
}

func nearBoundary(off int, ext [][2]int) bool {
	m := off % jBlock
	if m < 16 || m > jBlock-16 {
		return true
	}
	for _, e := range ext {
		for _, x := range e {
			if off >= x-16 && off <= x+16 {
				return true
			}
		}
	}
	return false
}

// addClass de-duplicates violation texts up to their numbers.
func addClass(seen map[string]bool, v string) bool {
	var b []byte
	for i := 0; i < len(v); i++ {
		if v[i] >= '0' && v[i] <= '9' {
			continue
		}
		b = append(b, v[i])
	}
	k := string(b)
	if seen[k] {
		return false
	}
	seen[k] = true
	return true
}

func runC12(t *c12Task) *c12Result {
	res := &c12Result{}
	classes := map[string]bool{}
	switch t.Kind {
	case "roundtrip":
		for _, lens := range t.Tuples {
			for mask := 0; mask < 1<<len(lens); mask++ {
				data, _, err := buildStream(lens, mask)
				if err != nil {
					res.Viol = append(res.Viol, fmt.Sprintf("writer error lens=%v mask=%b: %v", lens, mask, err))
					return res
				}
				res.Streams++
				if len(data) > res.MaxBytes {
					res.MaxBytes = len(data)
				}
				for _, strict := range []bool{false, true} {
					for _, bw := range []bool{false, true} {
						c12ByteWise = bw
						got, rerr, pan := readAll(data, strict)
						c12ByteWise = false
						res.Evals++
						if pan != nil || rerr != nil || !sameRecs(got, lens) {
							res.Viol = append(res.Viol, fmt.Sprintf("round trip failed lens=%v flushmask=%b strict=%v bytewise=%v: got %d records err=%v panic=%v", lens, mask, strict, bw, len(got), rerr, pan))
							return res
						}
					}
				}
			}
		}
	case "trunc", "flip", "zero":
		c12Fill = t.Fill
		defer func() { c12Fill = 0 }()
		data, ext, err := buildStream(t.Lens, t.Mask)
		if err != nil {
			res.Viol = append(res.Viol, "writer error: "+err.Error())
			return res
		}
		res.Streams = 1
		res.MaxBytes = len(data)
		to := t.To
		if to > len(data) {
			to = len(data)
		}
		for off := t.From; off < to; off++ {
			if t.Near && !nearBoundary(off, ext) {
				continue
			}
			if t.Kind == "zero" {
				// a run of zero bytes starting here and staying inside this 32 KiB block: two bytes,
				// a header's worth, a little more, a hundred, and everything up to the block end
				// (from offset 0 of a block: the whole block) - what a lost page or an unwritten
				// extent looks like
				bend := (off/jBlock + 1) * jBlock
				if bend > len(data) {
					bend = len(data)
				}
				for _, n := range []int{2, 7, 8, 100, bend - off} {
					if off+n > bend || n <= 0 {
						continue
					}
					d := append([]byte(nil), data...)
					changed := false
					for i := off; i < off+n; i++ {
						if d[i] != 0 {
							d[i] = 0
							changed = true
						}
					}
					if !changed {
						continue
					}
					v, eff := checkDamaged(data, d, t.Lens, ext, -1, off)
					res.Evals += 2
					if eff {
						res.Effect++
					}
					if v != "" && addClass(classes, v) {
						res.Viol = append(res.Viol, fmt.Sprintf("lens=%v flushmask=%b %d bytes from %d zeroed: %s", t.Lens, t.Mask, n, off, v))
					}
				}
				continue
			}
			if t.Kind == "trunc" {
				v, eff := checkDamaged(data, data[:off], t.Lens, ext, off, -1)
				res.Evals += 2
				if eff {
					res.Effect++
				}
				if v != "" && addClass(classes, v) {
					res.Viol = append(res.Viol, fmt.Sprintf("lens=%v flushmask=%b truncated at %d: %s", t.Lens, t.Mask, off, v))
				}
			} else {
				for _, pat := range []byte{0x01, 0xff, 0} {
					d := append([]byte(nil), data...)
					if pat == 0 {
						if d[off] == 0 {
							continue
						}
						d[off] = 0
					} else {
						d[off] ^= pat
					}
					v, eff := checkDamaged(data, d, t.Lens, ext, -1, off)
					res.Evals += 2
					if eff {
						res.Effect++
					}
					if v != "" && addClass(classes, v) {
						res.Viol = append(res.Viol, fmt.Sprintf("lens=%v flushmask=%b byte %d altered (pattern %#x): %s", t.Lens, t.Mask, off, pat, v))
					}
				}
			}
		}
	}
	return res
}

func init() {
	register(&Check{
		ID:    "C12",
		Level: "fault_enumeration",
		Worker: func(task []byte) []byte {
			var t c12Task
			if err := json.Unmarshal(task, &t); err != nil {
				return explore.MustJSON(c12Result{Viol: []string{"bad task"}})
			}
			return explore.MustJSON(runC12(&t))
		},
		Main: func(c *explore.Ctx) {
			pool := explore.NewPool(0, "worker", "C12")
			defer pool.Close()
			quick := c.Tier == "quick"
			maxTuple := 3
			if !quick {
				maxTuple = 4
			}
			var tasks []c12Task
			// round trips: all tuples up to maxTuple (length-4 tuples over a reduced set)
			var tuples [][]int
			var gen func(prefix []int, n int, set []int)
			gen = func(prefix []int, n int, set []int) {
				if len(prefix) > 0 {
					tuples = append(tuples, append([]int{}, prefix...))
				}
				if len(prefix) == n {
					return
				}
				for _, l := range set {
					gen(append(prefix, l), n, set)
				}
			}
			gen(nil, 3, c12Lens)
			if maxTuple == 4 {
				var t4 [][]int
				old := tuples
				tuples = nil
				gen(nil, 4, []int{0, 1, 32761, 32758, 32755, 32768, 65539})
				for _, t := range tuples {
					if len(t) == 4 {
						t4 = append(t4, t)
					}
				}
				tuples = append(old, t4...)
			}
			for i := 0; i < len(tuples); i += 64 {
				j := i + 64
				if j > len(tuples) {
					j = len(tuples)
				}
				tasks = append(tasks, c12Task{Kind: "roundtrip", Tuples: tuples[i:j]})
			}
			// damage: every offset on streams of <= 2 blocks, boundary neighbourhoods on longer ones
			type ds struct {
				lens []int
				mask int
				fill int
			}
			full := []ds{{[]int{1}, 0, 0}, {[]int{0, 7, 1}, 0b010, 0}, {[]int{100, 0, 3000}, 0b101, 0}, {[]int{32761, 1}, 0, 0}, {[]int{32755, 7, 7}, 0b001, 0}, {[]int{32768}, 0, 0}, {[]int{20000, 20000}, 0b01, 0}}
			near := []ds{{[]int{65539, 1}, 0, 0}, {[]int{32769, 32761, 7}, 0b010, 0}, {[]int{1, 65539, 1}, 0b111, 0}, {[]int{32753, 32754, 1}, 0, 0},
				// a record whose continuation chunk fills block 1 exactly (or up to the padding), so
				// that the next record starts at the first byte of block 2
				{[]int{65522, 5}, 0, 0}, {[]int{65519, 5, 1}, 0b010, 0}, {[]int{100, 65415, 9}, 0, 0}}
			// records of zero bytes and of one repeated byte (what a reader's buffer holds beyond the
			// data: zeros when fresh, the previous block at the same offsets later)
			full = append(full, ds{[]int{100}, 0, 1}, ds{[]int{3, 40000}, 0b01, 1}, ds{[]int{40000}, 0, 2}, ds{[]int{5, 33000, 5}, 0b010, 2})
			// a record spanning blocks whose content is itself journal-framed, preceded by 0..7
			// bytes so that every alignment of the inner chunks against the outer ones occurs
			for shift := 0; shift < 8; shift++ {
				near = append(near, ds{[]int{shift, -40000, 3}, 0, 0})
			}
			if !quick {
				for _, a := range c12Lens {
					for _, b := range []int{0, 1, 7, 32761} {
						full = append(full, ds{[]int{a % 40000, b}, 0b01, 0})
						near = append(near, ds{[]int{a, b, 7}, 0b100, 0})
					}
				}
			}
			step := 4096
			for _, kind := range []string{"trunc", "flip", "zero"} {
				for _, s := range full {
					c12Fill = s.fill
					data, _, _ := buildStream(s.lens, s.mask)
					c12Fill = 0
					for from := 0; from < len(data)+1; from += step {
						to := from + step
						if kind == "trunc" && to > len(data) {
							to = len(data) + 1
						}
						tasks = append(tasks, c12Task{Kind: kind, Lens: s.lens, Mask: s.mask, From: from, To: to, Fill: s.fill})
					}
				}
				for _, s := range near {
					data, _, _ := buildStream(s.lens, s.mask)
					for from := 0; from < len(data)+1; from += 16384 {
						tasks = append(tasks, c12Task{Kind: kind, Lens: s.lens, Mask: s.mask, From: from, To: from + 16384, Near: true})
					}
				}
			}
			exh := true
			done := 0
			const chunk = 512
			for start := 0; start < len(tasks); start += chunk {
				if c.OutOfTime() {
					exh = false
					break
				}
				end := start + chunk
				if end > len(tasks) {
					end = len(tasks)
				}
				var raw [][]byte
				for _, t := range tasks[start:end] {
					raw = append(raw, explore.MustJSON(t))
				}
				pool.Map(raw, func(i int, b []byte, err error) {
					t := tasks[start+i]
					var r c12Result
					if err != nil {
						r.Viol = explore.CrashViol(err)
					} else {
						json.Unmarshal(b, &r)
					}
					done++
					c.Add("evaluations", r.Evals)
					c.Add("distinct_nontrivial", r.Effect)
					c.Add("streams", r.Streams)
					if r.MaxBytes > c.Get("max_stream_bytes") {
						c.Coverage["max_stream_bytes"] = r.MaxBytes
					}
					if t.Kind == "roundtrip" {
						c.Add("roundtrip_streams", r.Streams)
					} else {
						c.Add("damaged_inputs_"+t.Kind, r.Evals/2)
					}
					for _, v := range r.Viol {
						c.Report(&explore.Violation{Property: "C12", Sig: map[string]string{"check": "journal", "kind": t.Kind, "effect": v}, Detail: map[string]any{"task": t, "violation": v}})
					}
				})
			}
			c.Coverage["record_lengths"] = c12Lens
			c.Coverage["max_tuple"] = maxTuple
			c.Coverage["tasks"] = len(tasks)
			c.SetExhaustive(exh && done == len(tasks))
			c.Sample(map[string]any{"roundtrip": tuples[len(tuples)/2], "damage_full_offsets": full[2], "damage_near_boundaries": near[1]})
			c.Coverage["rule"] = "round trip: all tuples (<=3 records from 15 boundary-hitting lengths; thorough adds 4-tuples over 7 lengths) x all 2^n flush patterns, strict and tolerant readers; damage: for the listed streams every truncation offset and every single-byte alteration (xor 0x01, xor 0xff, zero) at every offset (streams <= 2 blocks) or within 16 bytes of every chunk/block boundary (longer streams); evaluations = reader runs; distinct_nontrivial = damaged inputs on which the damage was observable (a record lost or an error reported)"
			c.Assume = []string{"checksums on (as the DB reads journals and manifests)", "record contents are a fixed function of (index, position)"}
		},
	})
}
