// Package harness drives the real DB: configurations, comparers, the operation alphabet,
// and the World that applies operations to the DB and to the reference model in lock step.
package harness

import (
	"bytes"

	"github.com/syndtr/goleveldb/leveldb/comparer"
)

// All comparers satisfy the documented contract: total order, equal iff identical bytes,
// empty slice least.

type shortlex struct{}

func (shortlex) Name() string { return "verif.shortlex" }
func (shortlex) Compare(a, b []byte) int {
	if len(a) != len(b) {
		if len(a) < len(b) {
			return -1
		}
		return 1
	}
	return bytes.Compare(a, b)
}
func (shortlex) Separator(dst, a, b []byte) []byte { return nil }
func (shortlex) Successor(dst, b []byte) []byte    { return nil }

// revtail: empty least, non-empty keys in reverse bytewise order.
type revtail struct{}

func (revtail) Name() string { return "verif.revtail" }
func (revtail) Compare(a, b []byte) int {
	switch {
	case len(a) == 0 && len(b) == 0:
		return 0
	case len(a) == 0:
		return -1
	case len(b) == 0:
		return 1
	}
	return -bytes.Compare(a, b)
}
func (revtail) Separator(dst, a, b []byte) []byte { return nil }
func (revtail) Successor(dst, b []byte) []byte    { return nil }

// xormap: bytewise order after XOR 0x80 of every byte, with correct shortening.
type xormap struct{}

func xm(a []byte) []byte {
	o := make([]byte, len(a))
	for i, c := range a {
		o[i] = c ^ 0x80
	}
	return o
}
func (xormap) Name() string            { return "verif.xormap" }
func (xormap) Compare(a, b []byte) int { return bytes.Compare(xm(a), xm(b)) }
func (xormap) Separator(dst, a, b []byte) []byte {
	r := comparer.DefaultComparer.Separator(nil, xm(a), xm(b))
	if r == nil {
		return nil
	}
	return append(dst, xm(r)...)
}
func (xormap) Successor(dst, b []byte) []byte {
	r := comparer.DefaultComparer.Successor(nil, xm(b))
	if r == nil {
		return nil
	}
	return append(dst, xm(r)...)
}

// lazy: bytewise order, Separator returns an unshortened copy of a, Successor a copy of b.
type lazy struct{}

func (lazy) Name() string                      { return "verif.lazy" }
func (lazy) Compare(a, b []byte) int           { return bytes.Compare(a, b) }
func (lazy) Separator(dst, a, b []byte) []byte { return append(dst, a...) }
func (lazy) Successor(dst, b []byte) []byte    { return append(dst, b...) }

// Comparers by name.
var Comparers = map[string]comparer.Comparer{
	"bytewise": comparer.DefaultComparer,
	"shortlex": shortlex{},
	"revtail":  revtail{},
	"xormap":   xormap{},
	"lazy":     lazy{},
}

var ComparerNames = []string{"bytewise", "shortlex", "revtail", "xormap", "lazy"}
