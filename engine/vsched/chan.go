package vsched

// Chan[T] models a Go channel under the cooperative scheduler. The rewritten code under
// test uses *Chan[T] wherever it used chan T.
type Chan[T any] struct {
	id     uint64
	cap    int
	buf    []T
	closed bool
	recvq  []*RecvCase[T]
	sendq  []*SendCase[T]
}

// SelCase is one communication clause of a select.
type SelCase interface {
	ready(self *G) bool
	exec(self *G)
	register(g *G, idx int)
	unregister()
	obj() uint64
}

type RecvCase[T any] struct {
	c   *Chan[T]
	g   *G
	idx int
	V   T
	Ok  bool
}

type SendCase[T any] struct {
	c   *Chan[T]
	g   *G
	idx int
	v   T
}

func NewChan[T any](n ...int) *Chan[T] {
	c := &Chan[T]{id: NewObj()}
	if len(n) > 0 {
		c.cap = n[0]
	}
	return c
}

func (c *Chan[T]) RecvCase() *RecvCase[T]    { return &RecvCase[T]{c: c} }
func (c *Chan[T]) SendCase(v T) *SendCase[T] { return &SendCase[T]{c: c, v: v} }

func (c *Chan[T]) Len() int {
	if c == nil {
		return 0
	}
	return len(c.buf)
}
func (c *Chan[T]) Cap() int {
	if c == nil {
		return 0
	}
	return c.cap
}

func (r *RecvCase[T]) obj() uint64 {
	if r.c == nil {
		return 0
	}
	return r.c.id
}
func (r *RecvCase[T]) ready(self *G) bool {
	c := r.c
	if c == nil {
		return false
	}
	if len(c.buf) > 0 || c.closed {
		return true
	}
	if c.cap > 0 {
		return false // buffered: a pending sender will fill the buffer first
	}
	for _, sc := range c.sendq {
		if sc.g != self {
			return true
		}
	}
	return false
}
func (r *RecvCase[T]) exec(self *G) {
	c := r.c
	if len(c.buf) > 0 {
		r.V = c.buf[0]
		var zero T
		c.buf[0] = zero
		c.buf = c.buf[1:]
		r.Ok = true
		return
	}
	if c.closed {
		r.Ok = false
		return
	}
	for _, sc := range c.sendq {
		if sc.g != self {
			r.V = sc.v
			r.Ok = true
			completeG(sc.g, sc.idx)
			return
		}
	}
	panic("vsched: recv exec on non-ready case")
}
func (r *RecvCase[T]) register(g *G, idx int) {
	r.g, r.idx = g, idx
	if r.c != nil {
		r.c.recvq = append(r.c.recvq, r)
	}
}
func (r *RecvCase[T]) unregister() {
	if r.c == nil {
		return
	}
	q := r.c.recvq
	for i, x := range q {
		if x == r {
			copy(q[i:], q[i+1:])
			q[len(q)-1] = nil
			r.c.recvq = q[:len(q)-1]
			return
		}
	}
}

func (sc *SendCase[T]) obj() uint64 {
	if sc.c == nil {
		return 0
	}
	return sc.c.id
}
func (sc *SendCase[T]) ready(self *G) bool {
	c := sc.c
	if c == nil {
		return false
	}
	if c.closed || len(c.buf) < c.cap {
		return true
	}
	if c.cap > 0 {
		return false // buffered and full: a pending receiver must drain it first
	}
	for _, r := range c.recvq {
		if r.g != self {
			return true
		}
	}
	return false
}
func (sc *SendCase[T]) exec(self *G) {
	c := sc.c
	if c.closed {
		panic("send on closed channel")
	}
	if c.cap > 0 {
		if len(c.buf) >= c.cap {
			panic("vsched: send exec on full channel")
		}
		c.buf = append(c.buf, sc.v)
		return
	}
	for _, r := range c.recvq {
		if r.g != self {
			r.V = sc.v
			r.Ok = true
			completeG(r.g, r.idx)
			return
		}
	}
	panic("vsched: send exec on non-ready case")
}
func (sc *SendCase[T]) register(g *G, idx int) {
	sc.g, sc.idx = g, idx
	if sc.c != nil {
		sc.c.sendq = append(sc.c.sendq, sc)
	}
}
func (sc *SendCase[T]) unregister() {
	if sc.c == nil {
		return
	}
	q := sc.c.sendq
	for i, x := range q {
		if x == sc {
			copy(q[i:], q[i+1:])
			q[len(q)-1] = nil
			sc.c.sendq = q[:len(q)-1]
			return
		}
	}
}

// completeG marks the parked goroutine g as having completed its case idx through a
// rendezvous performed by its partner.
func completeG(g *G, idx int) {
	S.hbPartner(g)
	g.selIdx = idx
	for _, w := range g.cases {
		w.unregister()
	}
	g.cases = nil
	g.pend = pending{kind: OpResume}
}

// Select performs a select over cases; returns the index of the case that completed, or -1
// for default (or when the execution is being torn down).
func Select(hasDefault bool, cases ...SelCase) int {
	s := S
	if s == nil {
		for i, c := range cases {
			if c.ready(nil) {
				c.exec(nil)
				return i
			}
		}
		if hasDefault {
			return -1
		}
		panic("vsched: blocking channel operation outside Run")
	}
	g := s.cur
	if s.aborting {
		Point(OpSelect, 0, nil)
		return -1
	}
	var o uint64
	for i, c := range cases {
		c.register(g, i)
		if i == 0 {
			o = c.obj()
		}
	}
	g.cases = cases
	g.selIdx = -2
	kind := OpSelect
	if len(cases) == 1 && !hasDefault {
		kind = OpChan
	}
	var ready func() bool
	if !hasDefault {
		ready = func() bool {
			if g.selIdx != -2 {
				return true
			}
			for _, c := range cases {
				if c.ready(g) {
					return true
				}
			}
			return false
		}
	}
	ok := Point(kind, o, ready)
	if g.selIdx != -2 {
		// completed by a partner (already unregistered)
		i := g.selIdx
		g.selIdx = -2
		if !ok {
			return -1
		}
		return i
	}
	for _, c := range cases {
		c.unregister()
	}
	g.cases = nil
	if !ok {
		return -1
	}
	var rd [8]int
	n := 0
	for i, c := range cases {
		if c.ready(g) {
			if n < len(rd) {
				rd[n] = i
			}
			n++
		}
	}
	if n > len(rd) {
		n = len(rd)
	}
	if n == 0 {
		if hasDefault {
			return -1
		}
		panic("vsched: select scheduled with no ready case")
	}
	k := 0
	if n > 1 {
		k = Choose(n)
		if s.aborting {
			return -1
		}
	}
	i := rd[k]
	cases[i].exec(g)
	return i
}

func (c *Chan[T]) Send(v T) {
	sc := &SendCase[T]{c: c, v: v}
	Select(false, sc)
}

func (c *Chan[T]) Recv() T {
	r := &RecvCase[T]{c: c}
	Select(false, r)
	return r.V
}

func (c *Chan[T]) Recv2() (T, bool) {
	r := &RecvCase[T]{c: c}
	Select(false, r)
	return r.V, r.Ok
}

func (c *Chan[T]) Close() {
	if !Point(OpChan, chanID(c), nil) {
		return
	}
	if c == nil {
		panic("close of nil channel")
	}
	if c.closed {
		panic("close of closed channel")
	}
	c.closed = true
}

func chanID[T any](c *Chan[T]) uint64 {
	if c == nil {
		return 0
	}
	return c.id
}

// tryPut is used by timers (scheduler context, no scheduling point).
func (c *Chan[T]) TryPut(v T) bool {
	if len(c.buf) < c.cap {
		c.buf = append(c.buf, v)
		return true
	}
	return false
}

// Drain empties the buffer (timer Reset/Stop helpers).
func (c *Chan[T]) Drain() {
	c.buf = c.buf[:0]
}
