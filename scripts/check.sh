#!/bin/bash
# usage: check.sh <property-id> [quick|thorough]   |   check.sh replay <file>
# Instruments /repo's *current* working tree into a scratch dir, builds the harness against
# it, runs the check and removes the scratch dir. Exit 0 held / 1 violation / 2 machinery error.
ROOT="$(cd "$(dirname "$0")/.." && pwd)"
export VERIF_ROOT="$ROOT"
ID="$1"; TIER="${2:-quick}"
TMP="$(mktemp -d /tmp/verif.XXXXXX)"
trap 'rm -rf "$TMP"' EXIT
EXTRA=()
if [ "$ID" = "C14" ]; then EXTRA=(-stmt leveldb/memdb); fi
if ! "$ROOT/scripts/build.sh" "$TMP" "${EXTRA[@]}" >"$TMP/build.log" 2>&1; then
  echo "BUILD-ERROR (machinery or source does not compile after instrumentation):"
  tail -40 "$TMP/build.log"
  exit 2
fi
if [ "$ID" = "replay" ]; then
  "$TMP/verif" replay "$2"
  exit $?
fi
"$TMP/verif" run "$ID" "$TIER"
exit $?
