package checks

import (
	"bytes"
	"encoding/binary"
	"encoding/json"
	"fmt"
	"sort"

	"github.com/syndtr/goleveldb/leveldb"
	"github.com/syndtr/goleveldb/leveldb/cache"
	"github.com/syndtr/goleveldb/leveldb/comparer"
	"github.com/syndtr/goleveldb/leveldb/errors"
	"github.com/syndtr/goleveldb/leveldb/filter"
	"github.com/syndtr/goleveldb/leveldb/iterator"
	"github.com/syndtr/goleveldb/leveldb/opt"
	"github.com/syndtr/goleveldb/leveldb/storage"
	"github.com/syndtr/goleveldb/leveldb/table"
	"github.com/syndtr/goleveldb/leveldb/util"
	"verif/explore"
	"verif/model"
)

// C13 — sorted tables. Exhaustive over a finite domain on the real table.Writer/Reader:
// every subset of a 10-key universe (prefix-sharing keys, empty key, 0xff runs) with values
// of three shapes, on an option grid (block size x restart interval x compression x filter
// x filter base x cache/pool); per table: exact and >= lookups for every universe key and
// probes, two-way scans, every movement sequence up to a depth on every range, offsets
// monotone. Damage: every byte of every checksummed block of the small tables altered.

var c13Users = []string{"", "a", "aa", "aab", "ab", "b", "b\xff", "b\xff\xff", "c", "\xffa"}
var c13Probes = []string{"", "a", "a\x00", "aaa", "ab", "abc", "b", "b\xfe", "b\xff", "b\xff\xff\xff", "bz", "c", "cb", "d", "\xff"}

type c13Grid struct {
	BlockSize, Restart int
	Snappy, Bloom      bool
	BaseLg             int
	Mode               string // cachepool | nocache | nopool | tinycache | nocacher
	IKey               bool   // internal keys under the internal comparer
	Bits               int    // bloom bits per key (0 = 10)
	NoStrict           bool   // reader opened with opt.NoStrict (block checksums of data blocks not verified)
}

func (g c13Grid) String() string {
	return fmt.Sprintf("bs%d/ri%d/snappy=%v/bloom=%v(%d)/lg%d/%s/ikey=%v", g.BlockSize, g.Restart, g.Snappy, g.Bloom, g.Bits, g.BaseLg, g.Mode, g.IKey) + map[bool]string{true: "/nostrict", false: ""}[g.NoStrict]
}

type c13Task struct {
	Grid   c13Grid `json:"grid"`
	From   int     `json:"from"` // subset masks [From, To)
	To     int     `json:"to"`
	Depth  int     `json:"depth"`  // movement depth
	Damage bool    `json:"damage"` // alter every byte of the table
	// FilterOnly restricts the damage to the filter block and its trailer
	FilterOnly bool `json:"filter_only,omitempty"`
}

type c13Result struct {
	Tables, Lookups, Seqs, Moves, Damaged, DamageDetected, FilterDamaged int
	Viol                                                                 []string
}

func c13Val(i int) string {
	switch i % 3 {
	case 0:
		return ""
	case 1:
		return fmt.Sprintf("v%02d", i)
	}
	return fmt.Sprintf("V%02d", i) + string(bytes.Repeat([]byte{'x'}, 97))
}

func c13Key(g c13Grid, u string, i int) []byte {
	if !g.IKey {
		return []byte(u)
	}
	return leveldb.VerifMakeIKey([]byte(u), uint64(100+i), leveldb.VerifKeyTypeVal)
}

func c13Options(g c13Grid) (*opt.Options, comparer.Comparer) {
	var cmp comparer.Comparer = comparer.DefaultComparer
	o := &opt.Options{BlockSize: g.BlockSize, BlockRestartInterval: g.Restart, Compression: opt.NoCompression, FilterBaseLg: g.BaseLg, Strict: opt.DefaultStrict}
	if g.Snappy {
		o.Compression = opt.SnappyCompression
	}
	bits := g.Bits
	if bits == 0 {
		bits = 10
	}
	if g.Bloom {
		o.Filter = filter.NewBloomFilter(bits)
	}
	if g.IKey {
		cmp = leveldb.VerifIComparerFull(comparer.DefaultComparer)
		if g.Bloom {
			o.Filter = leveldb.VerifIFilter(filter.NewBloomFilter(bits))
		}
	}
	o.Comparer = cmp
	if g.NoStrict {
		o.Strict = opt.NoStrict
	}
	return o, cmp
}

// c13FilterExtent locates the filter block (with its 5-byte trailer) of an uncompressed-metaindex
// table by reading the footer and the metaindex block; ok=false when there is none.
func c13FilterExtent(data []byte) (off, end int, ok bool) {
	if len(data) < 48 {
		return
	}
	foot := data[len(data)-48:]
	mo, n := binary.Uvarint(foot)
	if n <= 0 {
		return
	}
	ml, n2 := binary.Uvarint(foot[n:])
	if n2 <= 0 || int(mo+ml) > len(data) || ml < 8 {
		return
	}
	b := data[mo : mo+ml]
	// first entry: shared, unshared, value length, key, value
	sh, a := binary.Uvarint(b)
	un, c := binary.Uvarint(b[a:])
	vl, d := binary.Uvarint(b[a+c:])
	p := a + c + d
	if a <= 0 || c <= 0 || d <= 0 || sh != 0 || p+int(un)+int(vl) > len(b) || !bytes.HasPrefix(b[p:], []byte("filter.")) {
		return
	}
	v := b[p+int(un) : p+int(un)+int(vl)]
	fo, e := binary.Uvarint(v)
	fl, f := binary.Uvarint(v[e:])
	if e <= 0 || f <= 0 || int(fo+fl)+5 > len(data) {
		return
	}
	return int(fo), int(fo+fl) + 5, true
}

type c13Table struct {
	data  []byte
	pairs []model.Pair
	r     *table.Reader
}

func c13Build(g c13Grid, mask int) (*c13Table, error) {
	o, _ := c13Options(g)
	var buf bytes.Buffer
	var bp *util.BufferPool
	if g.Mode != "nopool" {
		bp = util.NewBufferPool(g.BlockSize + 5)
	}
	w := table.NewWriter(&buf, o, bp, 0)
	t := &c13Table{}
	for i, u := range c13Users {
		if mask&(1<<i) == 0 {
			continue
		}
		k := c13Key(g, u, i)
		v := c13Val(i)
		if err := w.Append(k, []byte(v)); err != nil {
			return nil, err
		}
		t.pairs = append(t.pairs, model.Pair{K: string(k), V: v})
	}
	if err := w.Close(); err != nil {
		return nil, err
	}
	t.data = buf.Bytes()
	return t, nil
}

func c13Open(g c13Grid, data []byte) (*table.Reader, error) {
	o, _ := c13Options(g)
	var bp *util.BufferPool
	if g.Mode != "nopool" {
		bp = util.NewBufferPool(g.BlockSize + 5)
	}
	var ns *cache.NamespaceGetter
	switch g.Mode {
	case "nocache":
	case "tinycache":
		// a cache that keeps nothing once the handle is released: every block (the filter block
		// too) lives exactly as long as its handle
		ns = &cache.NamespaceGetter{Cache: cache.NewCache(cache.NewLRU(1)), NS: 1}
	case "nocacher":
		ns = &cache.NamespaceGetter{Cache: cache.NewCache(nil), NS: 1}
	default:
		ns = &cache.NamespaceGetter{Cache: cache.NewCache(cache.NewLRU(1 << 20)), NS: 1}
	}
	return table.NewReader(bytes.NewReader(data), int64(len(data)), storage.FileDesc{Type: storage.TypeTable, Num: 1}, ns, bp, o)
}

// battery runs every read on the table. In damage mode (orig != nil) answers only need to be
// original pairs or errors.
func c13Battery(g c13Grid, r *table.Reader, pairs []model.Pair, depth int, damaged bool, res *c13Result) (viol string) {
	defer func() {
		if x := recover(); x != nil {
			viol = fmt.Sprintf("panic: %v", x)
		}
	}()
	_, cmp := c13Options(g)
	orig := map[string]string{}
	for _, p := range pairs {
		orig[p.K] = p.V
	}
	var probes [][]byte
	for i, u := range c13Users {
		probes = append(probes, c13Key(g, u, i))
	}
	for _, p := range c13Probes {
		if g.IKey {
			probes = append(probes, leveldb.VerifMakeIKey([]byte(p), leveldb.VerifKeyMaxSeq, leveldb.VerifKeyTypeSeek))
		} else {
			probes = append(probes, []byte(p))
		}
	}
	lastOff := int64(-1)
	sorted := append([][]byte{}, probes...)
	sort.Slice(sorted, func(i, j int) bool { return cmp.Compare(sorted[i], sorted[j]) < 0 })
	for _, k := range sorted {
		res.Lookups++
		// expected: first pair >= k
		idx := sort.Search(len(pairs), func(i int) bool { return cmp.Compare([]byte(pairs[i].K), k) >= 0 })
		rk, rv, err := r.Find(k, false, nil)
		if e := c13Answer(damaged, orig, pairs, idx, rk, rv, err, false); e != "" {
			return fmt.Sprintf("Find(%q): %s", k, e)
		}
		rk2, err := r.FindKey(k, false, nil)
		if e := c13Answer(damaged, orig, pairs, idx, rk2, nil, err, true); e != "" {
			return fmt.Sprintf("FindKey(%q): %s", k, e)
		}
		want, has := orig[string(k)]
		if has {
			// filtered lookups (what the DB issues) are only meaningful for exact matches:
			// a stored key must never be hidden by the filter / index routing
			fk, fv, ferr := r.Find(k, true, nil)
			switch {
			case ferr == nil:
				if string(fk) != string(k) || string(fv) != want {
					return fmt.Sprintf("filtered Find(%q) = %q=%q, stored %q", k, fk, fv, want)
				}
			case damaged && (ferr == leveldb.ErrNotFound || errors.IsCorrupted(ferr)):
			default:
				return fmt.Sprintf("filtered Find(%q) of a stored key: %v", k, ferr)
			}
			if fk2, ferr := r.FindKey(k, true, nil); !damaged && (ferr != nil || string(fk2) != string(k)) {
				return fmt.Sprintf("filtered FindKey(%q) of a stored key = %q, %v", k, fk2, ferr)
			}
		}
		v, err := r.Get(k, nil)
		switch {
		case err == nil:
			if !has || string(v) != want {
				return fmt.Sprintf("Get(%q) = %q, stored %v %q", k, v, has, want)
			}
		case err == leveldb.ErrNotFound:
			if has && !damaged {
				return fmt.Sprintf("Get(%q) not found, stored %q", k, want)
			}
		default:
			if !damaged || !errors.IsCorrupted(err) {
				return fmt.Sprintf("Get(%q) error %v", k, err)
			}
		}
		off, err := r.OffsetOf(k)
		if err == nil {
			if off < lastOff && !damaged {
				return fmt.Sprintf("OffsetOf(%q) = %d decreased from %d", k, off, lastOff)
			}
			lastOff = off
		} else if !damaged {
			return fmt.Sprintf("OffsetOf(%q) error %v", k, err)
		}
	}
	if damaged {
		// full scans: only original pairs, strictly increasing, or an error
		for _, back := range []bool{false, true} {
			it := r.NewIterator(nil, nil)
			var prev []byte
			for ok := first(it, back); ok; ok = next(it, back) {
				if v, has := orig[string(it.Key())]; !has || v != string(it.Value()) {
					it.Release()
					return fmt.Sprintf("scan yields %q=%q which was not stored", it.Key(), it.Value())
				}
				if prev != nil {
					c := cmp.Compare(prev, it.Key())
					if (!back && c >= 0) || (back && c <= 0) {
						it.Release()
						return fmt.Sprintf("scan out of order: %q then %q", prev, it.Key())
					}
				}
				prev = append(prev[:0], it.Key()...)
			}
			if err := it.Error(); err != nil && !errors.IsCorrupted(err) {
				it.Release()
				return fmt.Sprintf("scan error %v", err)
			}
			it.Release()
		}
		return ""
	}
	// ranges x movement sequences
	bounds := [][]byte{nil}
	for _, i := range []int{0, 1, 4, 7, 9} {
		bounds = append(bounds, c13Key(g, c13Users[i], i))
	}
	if g.IKey {
		bounds = append(bounds, leveldb.VerifMakeIKey([]byte("abz"), leveldb.VerifKeyMaxSeq, leveldb.VerifKeyTypeSeek))
	} else {
		bounds = append(bounds, []byte("abz"))
	}
	var seeks [][]byte
	for _, i := range []int{0, 2, 5, 7} {
		seeks = append(seeks, c13Key(g, c13Users[i], i))
	}
	seeks = append(seeks, probes[len(c13Users)+4], probes[len(c13Users)+13]) // "ab"-probe, "d"-probe
	for _, s := range bounds {
		for _, l := range bounds {
			if s != nil && l != nil && cmp.Compare(s, l) > 0 {
				continue
			}
			var want []model.Pair
			for _, p := range pairs {
				if s != nil && cmp.Compare([]byte(p.K), s) < 0 {
					continue
				}
				if l != nil && cmp.Compare([]byte(p.K), l) >= 0 {
					continue
				}
				want = append(want, p)
			}
			var rg *util.Range
			if s != nil || l != nil {
				rg = &util.Range{Start: s, Limit: l}
			}
			st := walkStats{}
			v := walkAll(func() iterator.Iterator { return r.NewIterator(rg, nil) }, want, cmp.Compare, seeks, depth, &st)
			res.Seqs += st.Seqs
			res.Moves += st.Moves
			if v != "" {
				return fmt.Sprintf("range [%q,%q): %s", s, l, v)
			}
			// long walks on tables with many entries (with block size 1 every entry is a block):
			// turn-arounds that cross several block boundaries need five or six moves - over
			// First/Last/Next/Prev and one Seek into the middle, on the whole table and one range
			if len(pairs) >= 6 && s == nil && (l == nil || len(want) >= 4) {
				deep := depth + 3
				st2 := walkStats{}
				v := walkAll(func() iterator.Iterator { return r.NewIterator(rg, nil) }, want, cmp.Compare, seeks[1:2], deep, &st2)
				res.Seqs += st2.Seqs
				res.Moves += st2.Moves
				if v != "" {
					return fmt.Sprintf("range [%q,%q) (long walk): %s", s, l, v)
				}
			}
		}
	}
	return ""
}

func first(it iterator.Iterator, back bool) bool {
	if back {
		return it.Last()
	}
	return it.First()
}
func next(it iterator.Iterator, back bool) bool {
	if back {
		return it.Prev()
	}
	return it.Next()
}

func c13Answer(damaged bool, orig map[string]string, pairs []model.Pair, idx int, rk, rv []byte, err error, keyOnly bool) string {
	if damaged {
		if err != nil {
			if err == leveldb.ErrNotFound || errors.IsCorrupted(err) {
				return ""
			}
			return fmt.Sprintf("error %v", err)
		}
		v, has := orig[string(rk)]
		if !has || (!keyOnly && v != string(rv)) {
			return fmt.Sprintf("returned %q=%q which was not stored", rk, rv)
		}
		return ""
	}
	if idx == len(pairs) {
		if err != leveldb.ErrNotFound {
			return fmt.Sprintf("returned %q err=%v, expected not found", rk, err)
		}
		return ""
	}
	if err != nil {
		return fmt.Sprintf("error %v, expected %q", err, pairs[idx].K)
	}
	if string(rk) != pairs[idx].K || (!keyOnly && string(rv) != pairs[idx].V) {
		return fmt.Sprintf("returned %q=%q, expected %q=%q", rk, rv, pairs[idx].K, pairs[idx].V)
	}
	return ""
}

func runC13(t *c13Task) *c13Result {
	res := &c13Result{}
	for mask := t.From; mask < t.To; mask++ {
		if mask == 0 && t.Grid.IKey {
			// the internal comparer (exposed by a verification hook) rejects the nil key an
			// empty table's index would need; the DB never writes empty tables
			continue
		}
		tb, err := c13Build(t.Grid, mask)
		if err != nil {
			res.Viol = append(res.Viol, fmt.Sprintf("%v subset %#x: writer error %v", t.Grid, mask, err))
			return res
		}
		res.Tables++
		if !t.Damage {
			r, err := c13Open(t.Grid, tb.data)
			if err != nil {
				res.Viol = append(res.Viol, fmt.Sprintf("%v subset %#x: NewReader error %v", t.Grid, mask, err))
				return res
			}
			v := c13Battery(t.Grid, r, tb.pairs, t.Depth, false, res)
			r.Release()
			if v != "" {
				res.Viol = append(res.Viol, fmt.Sprintf("%v subset %#x: %s", t.Grid, mask, v))
				return res
			}
			continue
		}
		// damage: every byte before the footer, three patterns. A damaged filter block may cost
		// reads but not answers: every data block is intact, so the battery stays exact there.
		n := len(tb.data) - 48
		fo, fe, hasF := 0, 0, false
		if !t.Grid.Snappy {
			fo, fe, hasF = c13FilterExtent(tb.data)
		}
		if t.FilterOnly && !hasF {
			continue
		}
		for off := 0; off < n; off++ {
			inFilter := hasF && off >= fo && off < fe
			if t.FilterOnly && !inFilter {
				continue
			}
			for _, pat := range []byte{0x01, 0xff, 0} {
				d := append([]byte(nil), tb.data...)
				if pat == 0 {
					if d[off] == 0 {
						continue
					}
					d[off] = 0
				} else {
					d[off] ^= pat
				}
				res.Damaged++
				r, err := c13Open(t.Grid, d)
				if err != nil {
					if errors.IsCorrupted(err) {
						res.DamageDetected++
						continue
					}
					res.Viol = append(res.Viol, fmt.Sprintf("%v subset %#x byte %d pattern %#x: NewReader error %v", t.Grid, mask, off, pat, err))
					return res
				}
				before := res.Lookups
				v := c13Battery(t.Grid, r, tb.pairs, 0, !inFilter, res)
				_ = before
				if inFilter {
					res.FilterDamaged++
				}
				r.Release()
				if v != "" {
					res.Viol = append(res.Viol, fmt.Sprintf("%v subset %#x byte %d pattern %#x: %s", t.Grid, mask, off, pat, v))
					return res
				}
			}
		}
	}
	return res
}

func c13GridPoints(quick bool) []c13Grid {
	var out []c13Grid
	if quick {
		for _, bs := range []int{1, 16, 4096} {
			for _, ri := range []int{1, 2, 16} {
				out = append(out, c13Grid{BlockSize: bs, Restart: ri, BaseLg: 11, Mode: "cachepool"})
			}
		}
		out = append(out,
			c13Grid{BlockSize: 16, Restart: 2, Snappy: true, Bloom: true, BaseLg: 1, Mode: "cachepool"},
			c13Grid{BlockSize: 64, Restart: 1, Bloom: true, BaseLg: 11, Mode: "nocache"},
			c13Grid{BlockSize: 16, Restart: 16, Snappy: true, BaseLg: 11, Mode: "nopool"},
			c13Grid{BlockSize: 16, Restart: 2, Bloom: true, BaseLg: 4, Mode: "cachepool", IKey: true},
			c13Grid{BlockSize: 1, Restart: 1, BaseLg: 11, Mode: "nopool", IKey: true},
			c13Grid{BlockSize: 4096, Restart: 16, Snappy: true, Bloom: true, BaseLg: 11, Mode: "cachepool", IKey: true},
			c13Grid{BlockSize: 16, Restart: 2, Bloom: true, BaseLg: 4, Mode: "tinycache"},
			c13Grid{BlockSize: 16, Restart: 2, Bloom: true, BaseLg: 2, Mode: "nocacher", IKey: true},
		)
		return out
	}
	for _, m := range []string{"tinycache", "nocacher"} {
		for _, bs := range []int{1, 16} {
			for _, lg := range []int{1, 4} {
				out = append(out, c13Grid{BlockSize: bs, Restart: 2, Bloom: true, BaseLg: lg, Mode: m}, c13Grid{BlockSize: bs, Restart: 2, Bloom: true, BaseLg: lg, Mode: m, IKey: true})
			}
		}
	}
	for _, bs := range []int{1, 16, 64, 4096} {
		for _, ri := range []int{1, 2, 16} {
			for _, sn := range []bool{false, true} {
				for _, bl := range []bool{false, true} {
					for _, lg := range []int{1, 11} {
						if !bl && lg == 1 {
							continue
						}
						for _, m := range []string{"cachepool", "nocache", "nopool"} {
							out = append(out, c13Grid{BlockSize: bs, Restart: ri, Snappy: sn, Bloom: bl, BaseLg: lg, Mode: m})
							if bs != 64 && ri != 16 {
								out = append(out, c13Grid{BlockSize: bs, Restart: ri, Snappy: sn, Bloom: bl, BaseLg: lg, Mode: m, IKey: true})
							}
						}
					}
				}
			}
		}
	}
	return out
}

func init() {
	register(&Check{
		ID:    "C13",
		Level: "model_checking",
		Worker: func(task []byte) []byte {
			var t c13Task
			if err := json.Unmarshal(task, &t); err != nil {
				return explore.MustJSON(c13Result{Viol: []string{"bad task"}})
			}
			return explore.MustJSON(runC13(&t))
		},
		Main: func(c *explore.Ctx) {
			pool := explore.NewPool(0, "worker", "C13")
			defer pool.Close()
			quick := c.Tier == "quick"
			depth := 2
			if !quick {
				depth = 3
			}
			grid := c13GridPoints(quick)
			var tasks []c13Task
			step := 128
			for _, g := range grid {
				for from := 0; from < 1024; from += step {
					tasks = append(tasks, c13Task{Grid: g, From: from, To: from + step, Depth: depth})
				}
			}
			// damage: the 64 smallest subsets (masks 0..63) on a few grid points
			dg := []c13Grid{{BlockSize: 16, Restart: 2, BaseLg: 11, Mode: "cachepool"}, {BlockSize: 16, Restart: 2, Snappy: true, Bloom: true, BaseLg: 2, Mode: "nocache"}, {BlockSize: 4096, Restart: 16, Bloom: true, BaseLg: 11, Mode: "nopool", IKey: true}}
			if !quick {
				dg = append(dg, c13Grid{BlockSize: 1, Restart: 1, Bloom: true, BaseLg: 1, Mode: "cachepool"}, c13Grid{BlockSize: 64, Restart: 1, Snappy: true, BaseLg: 11, Mode: "cachepool", IKey: true})
			}
			dn := 32
			if !quick {
				dn = 64
			}
			for _, g := range dg {
				for from := 0; from < dn; from += 2 {
					tasks = append(tasks, c13Task{Grid: g, From: from, To: from + 2, Damage: true})
				}
			}
			exh := true
			done := 0
			const chunk = 256
			for start := 0; start < len(tasks); start += chunk {
				if c.OutOfTime() {
					exh = false
					break
				}
				end := start + chunk
				if end > len(tasks) {
					end = len(tasks)
				}
				var raw [][]byte
				for _, t := range tasks[start:end] {
					raw = append(raw, explore.MustJSON(t))
				}
				pool.Map(raw, func(i int, b []byte, err error) {
					t := tasks[start+i]
					var r c13Result
					if err != nil {
						r.Viol = explore.CrashViol(err)
					} else {
						json.Unmarshal(b, &r)
					}
					done++
					if t.Damage {
						c.Add("damaged_tables", r.Damaged)
						c.Add("damage_detected_at_open", r.DamageDetected)
					} else {
						c.Add("states", r.Tables)
					}
					c.Add("tables_built", r.Tables)
					c.Add("lookups", r.Lookups)
					c.Add("movement_sequences", r.Seqs)
					c.Add("transitions", r.Moves+r.Lookups)
					c.Add("traces_validated_against_impl", r.Seqs)
					for _, v := range r.Viol {
						c.Report(&explore.Violation{Property: "C13", Sig: map[string]string{"check": "table", "grid": t.Grid.String(), "damage": fmt.Sprint(t.Damage), "effect": v}, Detail: map[string]any{"task": t, "violation": v}})
					}
				})
			}
			c.Coverage["grid_points"] = len(grid)
			c.Coverage["movement_depth"] = depth
			c.Coverage["tasks"] = len(tasks)
			c.SetExhaustive(exh && done == len(tasks))
			c.Sample(map[string]any{"grid": grid[0].String(), "subset_mask": "0x2a5", "keys": []string{"", "aa", "b", "b\\xff\\xff", "\\xffa"}})
			c.Coverage["rule"] = "states = tables built: every subset (1024) of a 10-key universe {'',a,aa,aab,ab,b,b\\xff,b\\xff\\xff,c,ca} with values {empty,3B,100B} by position, per grid point (block size x restart interval x compression x bloom x filter base x cache/pool x raw/internal keys); per table Find/FindKey/Get/OffsetOf for 25 probes and, for 49 ranges, every movement sequence of the stated depth over {First,Last,Next,Prev,Seek x6} against a cursor model; damage: every byte before the footer of the smallest subsets' tables altered with 3 patterns, whole battery re-run (only original pairs or corruption errors allowed)"
			c.Assume = []string{"default strictness (block checksums verified)", "footer bytes are not checksummed and are not altered"}
		},
	})
}
