#!/bin/bash
# usage: build.sh <outdir> [extra vrewrite flags]  — instruments the repository's current tree and builds the harness.
# The repository is /repo unless VERIF_REPO names another checkout (scratch worktrees for seeded changes).
set -e
export GOFLAGS=-mod=mod GOPROXY=off GOSUMDB=off GOTOOLCHAIN=local
ROOT="$(cd "$(dirname "$0")/.." && pwd)"
OUT="$1"; shift
REPO="${VERIF_REPO:-/repo}"
mkdir -p "$OUT"
SRC="$ROOT/engine"
if [ "$REPO" != "/repo" ]; then
  # build from a copy of the engine whose go.mod points at the other checkout
  rm -rf "$OUT/engine"; cp -r "$ROOT/engine" "$OUT/engine"; SRC="$OUT/engine"
  (cd "$SRC" && go mod edit -replace "github.com/syndtr/goleveldb=$REPO")
fi
cd "$SRC"
cp "$REPO/go.sum" go.sum 2>/dev/null || true
go build -o "$OUT/vrewrite" ./cmd/vrewrite
rm -rf "$OUT/rw"
"$OUT/vrewrite" -repo "$REPO" -out "$OUT/rw" -hooks "$ROOT/hooks" "$@" >/dev/null
go build -overlay "$OUT/rw/overlay.json" -tags verif -o "$OUT/verif" ./cmd/verif
