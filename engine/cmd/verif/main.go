// verif is the single harness binary: `verif run <id> <tier>` coordinates a check,
// `verif worker <id>` is the execution engine subprocess, `verif replay <file>` re-runs a
// recorded violation.
package main

import (
	"fmt"
	"os"
	"runtime/pprof"
	"time"

	"verif/checks"
	"verif/explore"
)

func main() {
	if len(os.Args) < 3 {
		fmt.Fprintln(os.Stderr, "usage: verif run <id> <tier> | worker <id> | replay <file>")
		os.Exit(2)
	}
	switch os.Args[1] {
	case "run":
		ck := checks.Registry[os.Args[2]]
		if ck == nil {
			fmt.Fprintln(os.Stderr, "unknown check", os.Args[2])
			os.Exit(2)
		}
		tier := "quick"
		if len(os.Args) > 3 {
			tier = os.Args[3]
		}
		if t := os.Getenv("VERIF_TIER"); t == "quick" || t == "thorough" {
			tier = t
		}
		c := explore.NewCtx(ck.ID, tier, ck.Level)
		ck.Main(c)
		os.Exit(c.Finish())
	case "worker":
		ck := checks.Registry[os.Args[2]]
		if ck == nil {
			os.Exit(2)
		}
		explore.ServeWorker(ck.Worker)
	case "replay":
		os.Exit(checks.Replay(os.Args[2]))
	case "bench":
		// verif bench <id> <task.json> <n> <cpu.prof>: run one worker task n times under the profiler
		ck := checks.Registry[os.Args[2]]
		task, _ := os.ReadFile(os.Args[3])
		n := 1
		fmt.Sscan(os.Args[4], &n)
		f, _ := os.Create(os.Args[5])
		pprof.StartCPUProfile(f)
		t0 := time.Now()
		var out []byte
		for i := 0; i < n; i++ {
			out = ck.Worker(task)
		}
		pprof.StopCPUProfile()
		f.Close()
		if len(out) > 300 {
			out = out[:300]
		}
		fmt.Printf("%d runs in %v\n%s\n", n, time.Since(t0), out)
	default:
		os.Exit(2)
	}
}
