package harness

import (
	"bytes"
	"fmt"
	"hash/fnv"
	"sort"
	"strings"

	"github.com/syndtr/goleveldb/leveldb"
	"github.com/syndtr/goleveldb/leveldb/iterator"
	"github.com/syndtr/goleveldb/leveldb/opt"
	"github.com/syndtr/goleveldb/leveldb/storage"
	"github.com/syndtr/goleveldb/leveldb/util"
	"verif/model"
	"verif/vsched"
	"verif/vstor"
)

// Keys written by the alphabet and probe keys used for reads.
var (
	Keys   = []string{"a", "b", "c"}
	Probes = []string{"", "a", "aa", "b", "b\xff", "c", "d"}
)

type snapView struct {
	s *leveldb.Snapshot
	m *model.KV
}

// S and M expose a snapshot view to checks.
func (v *snapView) S() *leveldb.Snapshot { return v.s }
func (v *snapView) M() *model.KV         { return v.m }

type iterView struct {
	it iterator.Iterator
	m  []model.Pair
}

// World is one DB instance plus its reference model.
type World struct {
	Cfg         Config
	Stor        *vstor.Stor
	DB          *leveldb.DB
	M           *model.KV
	Step        int
	heldBatches []heldBatch // batches passed to Write, kept by the "caller" with a copy of their contents
	Snaps       []*snapView
	Iters       []*iterView
	Tr          *leveldb.Transaction
	TrM         *model.KV
	Viol        []string
	Sync        bool // use WriteOptions{Sync:true}
	// Scribble: overwrite argument buffers after each call and Get results after comparing (C20).
	Scribble bool
	// OpenOpts lets a check adjust options per open (e.g. filters).
	OpenOpts       func(o *opt.Options)
	cmp            model.Cmp
	Probes         []string
	Issued         []model.Batch // every batch issued, in order (crash/fault oracles)
	Acked          []bool        // batch i was acknowledged successfully
	SyncAck        []bool        // batch i was acknowledged with sync (or committed transaction)
	Errs           []string      // operation errors (for fault checks; not violations by themselves)
	TolerateErrors bool
	CallPos        []int // storage-log position when batch i was issued
	AckPos         []int // storage-log position when batch i returned
	curCall        int
	trCall         int
}

func NewWorld(cfg Config) *World {
	c := Comparers[cfg.Comparer()]
	w := &World{Cfg: cfg, Stor: vstor.New(), cmp: c.Compare, Probes: Probes}
	w.M = model.NewKV(w.cmp)
	return w
}

func (w *World) Cmp() model.Cmp { return w.cmp }

func (w *World) violate(format string, a ...any) {
	w.Viol = append(w.Viol, fmt.Sprintf(format, a...))
}

func (w *World) Failed() bool { return len(w.Viol) > 0 }

func (w *World) options() *opt.Options {
	o := w.Cfg.Options()
	if w.OpenOpts != nil {
		w.OpenOpts(o)
	}
	return o
}

// Open opens (or reopens) the DB on the world's storage.
func (w *World) Open() error {
	db, err := leveldb.Open(w.Stor, w.options())
	if err != nil {
		return err
	}
	w.DB = db
	return nil
}

func (w *World) MustOpen() bool {
	if err := w.Open(); err != nil {
		w.violate("Open failed: %v", err)
		return false
	}
	return true
}

func (w *World) wo() *opt.WriteOptions {
	if w.Sync {
		return &opt.WriteOptions{Sync: true}
	}
	return nil
}

func (w *World) val(shape string) string {
	switch shape {
	case "E":
		return ""
	case "L":
		return fmt.Sprintf("L%03d", w.Step) + strings.Repeat("x", 96)
	case "M":
		return fmt.Sprintf("M%03d", w.Step) + strings.Repeat("y", 16)
	case "X":
		// larger than a 32 KiB journal block: the record spans blocks (and journal reads)
		return fmt.Sprintf("X%03d", w.Step) + strings.Repeat("z", 40000)
	}
	return fmt.Sprintf("v%d", w.Step)
}

func scribble(b []byte) {
	for i := range b {
		b[i] = 0xEE
	}
}

// argument buffers are freshly allocated per call so that scribbling cannot alias the
// harness's own strings.
// The buffers have 16 bytes of spare capacity filled with a sentinel: a callee that appends to
// the caller's slice (instead of copying it) writes there, and spareIntact sees it.
func buf(s string) []byte {
	b := make([]byte, len(s), len(s)+16)
	copy(b, s)
	sp := b[len(s):cap(b)]
	for i := range sp {
		sp[i] = 0xA5
	}
	return b
}

func spareIntact(b []byte) bool {
	for _, c := range b[len(b):cap(b)] {
		if c != 0xA5 {
			return false
		}
	}
	return true
}

func (w *World) record(b model.Batch, err error) {
	w.Issued = append(w.Issued, b)
	w.Acked = append(w.Acked, err == nil)
	w.SyncAck = append(w.SyncAck, err == nil && w.Sync)
	w.pos()
}

func (w *World) pos() {
	w.CallPos = append(w.CallPos, w.curCall)
	w.AckPos = append(w.AckPos, len(w.Stor.Ops))
}

func (w *World) opErr(op string, err error) {
	if err == nil {
		return
	}
	if w.TolerateErrors {
		w.Errs = append(w.Errs, op+": "+err.Error())
		return
	}
	w.violate("%s returned error: %v", op, err)
}

func (w *World) put(k, v string) {
	kb, vb := buf(k), buf(v)
	err := w.DB.Put(kb, vb, w.wo())
	if string(kb) != k || string(vb) != v || !spareIntact(kb) || !spareIntact(vb) {
		w.violate("Put modified its argument buffers (or the memory behind them)")
	}
	if w.Scribble {
		scribble(kb)
		scribble(vb)
	}
	b := model.Batch{{K: k, V: v}}
	w.record(b, err)
	if err == nil {
		w.M.Apply(b)
	}
	w.opErr("Put", err)
}

func (w *World) del(k string) {
	kb := buf(k)
	err := w.DB.Delete(kb, w.wo())
	if string(kb) != k || !spareIntact(kb) {
		w.violate("Delete modified its argument buffer (or the memory behind it)")
	}
	if w.Scribble {
		scribble(kb)
	}
	b := model.Batch{{Del: true, K: k}}
	w.record(b, err)
	if err == nil {
		w.M.Apply(b)
	}
	w.opErr("Delete", err)
}

func (w *World) mkBatch(mb model.Batch) (*leveldb.Batch, [][]byte) {
	b := new(leveldb.Batch)
	var bufs [][]byte
	for _, o := range mb {
		kb := buf(o.K)
		if o.Del {
			b.Delete(kb)
			bufs = append(bufs, kb)
		} else {
			vb := buf(o.V)
			b.Put(kb, vb)
			bufs = append(bufs, kb, vb)
		}
		if w.Scribble {
			// Batch.Put/Delete copy their arguments: scribble right away
			for _, x := range bufs[len(bufs)-1:] {
				scribble(x)
			}
			scribble(kb)
		}
	}
	return b, bufs
}

// CheckHeldBatches: a batch handed to Write belongs to the caller again when Write returns,
// whatever Write returned: it is still intact after any number of later operations.
func (w *World) CheckHeldBatches() {
	for _, h := range w.heldBatches {
		if !bytes.Equal(h.dump, h.b.Dump()) {
			w.violate("a batch passed to Write at step %d (which returned %v) was modified after Write returned: %d records / %d bytes now, %d bytes then", h.step, h.err, h.b.Len(), len(h.b.Dump()), len(h.dump))
			return
		}
	}
}

type heldBatch struct {
	b    *leveldb.Batch
	dump []byte
	step int
	err  error
}

func (w *World) write(mb model.Batch) {
	b, _ := w.mkBatch(mb)
	dump := append([]byte(nil), b.Dump()...)
	err := w.DB.Write(b, w.wo())
	if !bytes.Equal(dump, b.Dump()) {
		w.violate("Write modified the batch")
	}
	if w.Scribble {
		b.Reset()
		b.Put([]byte("zz-scribble"), []byte("zz"))
	}
	// the caller keeps the batch (as it is now) and looks at it again later
	if len(w.heldBatches) < 8 {
		w.heldBatches = append(w.heldBatches, heldBatch{b, append([]byte(nil), b.Dump()...), w.Step, err})
	}
	w.Issued = append(w.Issued, mb)
	w.Acked = append(w.Acked, err == nil)
	// a large batch goes through a transaction: durable on success regardless of sync
	w.SyncAck = append(w.SyncAck, err == nil && (w.Sync || w.isLarge(mb)))
	w.pos()
	if err == nil {
		w.M.Apply(mb)
	}
	w.opErr("Write", err)
}

func (w *World) isLarge(mb model.Batch) bool {
	n := 0
	for _, o := range mb {
		n += len(o.K) + len(o.V) + 8
	}
	o := w.Cfg.Options()
	return n > o.GetWriteBuffer() && !o.GetDisableLargeBatchTransaction()
}

// Ops returns the enabled operations of the alphabet in the current state.
// The alphabet is selected by name.
func (w *World) Enabled(alpha []string) []string {
	var out []string
	for _, op := range alpha {
		if w.enabled(op) {
			out = append(out, op)
		}
	}
	return out
}

func (w *World) enabled(op string) bool {
	t, arg := splitOp(op)
	switch t {
	case "re", "ro":
		return w.Tr == nil && len(w.Snaps) == 0 && len(w.Iters) == 0
	case "reT":
		return w.Tr != nil && len(w.Snaps) == 0 && len(w.Iters) == 0
	case "snap":
		return len(w.Snaps) < 2
	case "rel":
		i := atoi(arg)
		return i < len(w.Snaps)
	case "iter":
		return len(w.Iters) < 1
	case "iterS":
		return len(w.Iters) < 1 && len(w.Snaps) > 0
	case "titer":
		return len(w.Iters) < 1 && w.Tr != nil
	case "reliter":
		return len(w.Iters) > 0
	case "otr":
		return w.Tr == nil
	case "tput", "tdel", "twrite", "tbig", "commit", "discard":
		return w.Tr != nil
	case "put", "putE", "putL", "putM", "putX", "del", "b1", "b2", "big", "w", "trx", "trxr", "trd", "cr", "crb", "crk":
		// writers and CompactRange block while a transaction is open
		return w.Tr == nil
	}
	return true
}

func splitOp(op string) (string, string) {
	if i := strings.IndexByte(op, ':'); i >= 0 {
		return op[:i], Unesc(op[i+1:])
	}
	return op, ""
}

// Unesc decodes %hh escapes (operation arguments travel through JSON, which cannot carry
// arbitrary bytes).
func Unesc(s string) string {
	if !strings.Contains(s, "%") {
		return s
	}
	var b []byte
	for i := 0; i < len(s); i++ {
		if s[i] == '%' && i+2 < len(s)+1 {
			var x byte
			fmt.Sscanf(s[i+1:i+3], "%02x", &x)
			b = append(b, x)
			i += 2
		} else {
			b = append(b, s[i])
		}
	}
	return string(b)
}

// parseBatch decodes "+k,-k,+k=shape" into a model batch; values are fresh per record.
func (w *World) parseBatch(spec string) model.Batch {
	var mb model.Batch
	for i, f := range strings.Split(spec, ",") {
		if f == "" {
			continue
		}
		switch f[0] {
		case '-':
			mb = append(mb, model.BatchOp{Del: true, K: f[1:]})
		case '+':
			k, shape := f[1:], ""
			if j := strings.IndexByte(k, '='); j >= 0 {
				k, shape = k[:j], k[j+1:]
			}
			mb = append(mb, model.BatchOp{K: k, V: fmt.Sprintf("%s.%d", w.val(shape), i)})
		}
	}
	return mb
}

func atoi(s string) int {
	n := 0
	for _, c := range s {
		n = n*10 + int(c-'0')
	}
	return n
}

// Apply performs one operation on the DB and on the model.
func (w *World) Apply(op string) {
	w.Step++
	w.curCall = len(w.Stor.Ops)
	if len(op) > 1 && op[0] == 'S' {
		// "S<op>": the same operation with WriteOptions.Sync
		old := w.Sync
		w.Sync = true
		w.Step--
		w.Apply(op[1:])
		w.Sync = old
		return
	}
	t, arg := splitOp(op)
	switch t {
	case "put":
		w.put(arg, w.val(""))
	case "putE":
		w.put(arg, w.val("E"))
	case "putL":
		w.put(arg, w.val("L"))
	case "putM":
		w.put(arg, w.val("M"))
	case "putX":
		w.put(arg, w.val("X"))
	case "del":
		w.del(arg)
	case "b1":
		w.write(model.Batch{{K: "a", V: w.val("")}, {Del: true, K: "b"}})
	case "b2":
		w.write(model.Batch{{K: "b", V: w.val("") + "x"}, {K: "b", V: w.val("")}, {Del: true, K: "c"}})
	case "big":
		w.write(model.Batch{{K: "a", V: w.val("M")}, {K: "c", V: w.val("M")}, {Del: true, K: "b"}})
	case "w":
		w.write(w.parseBatch(arg))
	case "trx":
		// OpenTransaction; Write(batch); Commit — as one history step
		mb := w.parseBatch(arg)
		tr, err := w.DB.OpenTransaction()
		if err != nil {
			w.record(mb, err)
			w.SyncAck[len(w.SyncAck)-1] = false
			w.opErr("OpenTransaction", err)
			return
		}
		b, _ := w.mkBatch(mb)
		err = tr.Write(b, nil)
		if err == nil {
			err = tr.Commit()
		}
		if err != nil {
			tr.Discard()
		}
		w.record(mb, err)
		w.SyncAck[len(w.SyncAck)-1] = err == nil
		if err == nil {
			w.M.Apply(mb)
		}
		w.opErr("transaction", err)
	case "trxr":
		// a transaction whose Commit is RETRIED when it fails ("it can then either be retried or
		// discarded"): after a failed Commit one more record is written through the still open
		// transaction and Commit is called again; only a second failure discards
		mb := w.parseBatch(arg)
		tr, err := w.DB.OpenTransaction()
		if err != nil {
			w.record(mb, err)
			w.SyncAck[len(w.SyncAck)-1] = false
			w.opErr("OpenTransaction", err)
			return
		}
		b, _ := w.mkBatch(mb)
		err = tr.Write(b, nil)
		if err == nil {
			err = tr.Commit()
			if err != nil {
				w.Errs = append(w.Errs, "transaction commit (first attempt): "+err.Error())
				extra := model.BatchOp{K: "a", V: w.val("M")}
				if perr := tr.Put(buf(extra.K), buf(extra.V), nil); perr == nil {
					mb = append(append(model.Batch{}, mb...), extra)
				}
				err = tr.Commit()
			}
		}
		if err != nil {
			tr.Discard()
		}
		w.record(mb, err)
		w.SyncAck[len(w.SyncAck)-1] = err == nil
		if err == nil {
			w.M.Apply(mb)
		}
		w.opErr("transaction", err)
	case "trd":
		// a transaction that is filled until it has written `arg` tables of its own and is then
		// discarded: no visible effect, but the tables' file numbers were handed out and never
		// reach the manifest
		tr, err := w.DB.OpenTransaction()
		if err != nil {
			w.opErr("OpenTransaction", err)
			return
		}
		n := atoi(arg)
		big := strings.Repeat("t", 2*w.Cfg.Options().GetWriteBuffer()+64)
		for i := 0; i <= n; i++ {
			if err := tr.Put([]byte{'t', byte('0' + i)}, []byte(big), nil); err != nil {
				w.opErr("Transaction.Put", err)
				break
			}
		}
		tr.Discard()
	case "cr":
		w.opErr("CompactRange", w.DB.CompactRange(util.Range{}))
	case "crb":
		w.opErr("CompactRange", w.DB.CompactRange(util.Range{Start: []byte("b"), Limit: []byte("b\x00")}))
	case "crk":
		w.opErr("CompactRange", w.DB.CompactRange(util.Range{Start: []byte(arg), Limit: []byte(arg)}))
	case "q":
		vsched.Quiesce()
	case "settle":
		vsched.Sleep(120e9)
	case "re":
		w.opErr("Close", w.DB.Close())
		w.DB = nil
		if err := w.Open(); err != nil {
			w.violate("reopen after clean close failed: %v", err)
		}
	case "reT":
		// Close with an open transaction (Close discards it), then reopen
		w.opErr("Close", w.DB.Close())
		w.DB = nil
		w.Tr, w.TrM = nil, nil
		if err := w.Open(); err != nil {
			w.violate("reopen after close with open transaction failed: %v", err)
		}
	case "snap":
		s, err := w.DB.GetSnapshot()
		if err != nil {
			w.violate("GetSnapshot: %v", err)
			return
		}
		w.Snaps = append(w.Snaps, &snapView{s: s, m: w.M.Clone()})
	case "rel":
		i := atoi(arg)
		w.Snaps[i].s.Release()
		w.Snaps = append(w.Snaps[:i], w.Snaps[i+1:]...)
	case "iter":
		it := w.DB.NewIterator(nil, nil)
		w.Iters = append(w.Iters, &iterView{it: it, m: w.M.Sorted()})
	case "iterS":
		it := w.Snaps[0].s.NewIterator(nil, nil)
		w.Iters = append(w.Iters, &iterView{it: it, m: w.Snaps[0].m.Sorted()})
	case "titer":
		// an iterator on the open transaction, held across later transaction writes
		it := w.Tr.NewIterator(nil, nil)
		w.Iters = append(w.Iters, &iterView{it: it, m: w.TrM.Sorted()})
	case "reliter":
		w.Iters[0].it.Release()
		w.Iters = w.Iters[:0]
	case "otr":
		tr, err := w.DB.OpenTransaction()
		if err != nil {
			w.opErr("OpenTransaction", err)
			return
		}
		w.Tr = tr
		w.TrM = w.M.Clone()
		w.trCall = w.curCall
	case "tput":
		kb, vb := buf(arg), buf(w.val("M"))
		v := string(vb)
		err := w.Tr.Put(kb, vb, nil)
		if w.Scribble {
			scribble(kb)
			scribble(vb)
		}
		if err == nil {
			w.TrM.Put(arg, v)
		}
		w.opErr("Transaction.Put", err)
	case "tdel":
		kb := buf(arg)
		err := w.Tr.Delete(kb, nil)
		if w.Scribble {
			scribble(kb)
		}
		if err == nil {
			w.TrM.Del(arg)
		}
		w.opErr("Transaction.Delete", err)
	case "twrite":
		mb := model.Batch{{K: "a", V: w.val("")}, {Del: true, K: "b"}, {K: "c", V: w.val("M")}}
		b, _ := w.mkBatch(mb)
		err := w.Tr.Write(b, nil)
		if err == nil {
			w.TrM.Apply(mb)
		}
		w.opErr("Transaction.Write", err)
	case "commit":
		err := w.Tr.Commit()
		if err == nil {
			// the transaction's net effect, as one batch
			w.Issued = append(w.Issued, diffBatch(w.M, w.TrM))
			w.Acked = append(w.Acked, true)
			w.SyncAck = append(w.SyncAck, true)
			w.CallPos = append(w.CallPos, w.trCall)
			w.AckPos = append(w.AckPos, len(w.Stor.Ops))
			w.M = w.TrM
			w.M.Cmp = w.cmp
			w.Tr, w.TrM = nil, nil
		} else {
			w.opErr("Transaction.Commit", err)
		}
	case "discard":
		w.Tr.Discard()
		w.Tr, w.TrM = nil, nil
	default:
		panic("unknown op " + op)
	}
}

// diffBatch returns a batch that turns a into b.
func diffBatch(a, b *model.KV) model.Batch {
	var out model.Batch
	var ks []string
	for k := range a.M {
		if _, ok := b.M[k]; !ok {
			ks = append(ks, k)
		}
	}
	sort.Strings(ks)
	for _, k := range ks {
		out = append(out, model.BatchOp{Del: true, K: k})
	}
	ks = ks[:0]
	for k, v := range b.M {
		if w, ok := a.M[k]; !ok || w != v {
			ks = append(ks, k)
		}
	}
	sort.Strings(ks)
	for _, k := range ks {
		out = append(out, model.BatchOp{K: k, V: b.M[k]})
	}
	return out
}

// getter abstracts DB / Snapshot / Transaction reads.
type getter interface {
	Get(key []byte, ro *opt.ReadOptions) ([]byte, error)
	Has(key []byte, ro *opt.ReadOptions) (bool, error)
	NewIterator(slice *util.Range, ro *opt.ReadOptions) iterator.Iterator
}

// checkReads compares Get/Has for every probe with m.
func (w *World) checkReads(what string, g getter, m *model.KV) {
	for _, p := range w.Probes {
		kb := buf(p)
		// first without filling the caches (the lookup path compaction iterators use), then normally:
		// same answer
		v0, err0 := g.Get(kb, &opt.ReadOptions{DontFillCache: true})
		v, err := g.Get(kb, nil)
		if (err0 == nil) != (err == nil) || (err0 != nil && err0.Error() != err.Error()) || string(v0) != string(v) {
			w.violate("%s: Get(%q) with DontFillCache = %q, %v; without = %q, %v", what, p, v0, err0, v, err)
		}
		if string(kb) != p || !spareIntact(kb) {
			w.violate("%s: Get modified its key buffer (or the memory behind it)", what)
		}
		want, ok := m.Get(p)
		switch {
		case err == leveldb.ErrNotFound:
			if ok {
				w.violate("%s: Get(%q) = not found, model has %q", what, p, want)
			}
		case err != nil:
			w.violate("%s: Get(%q) error %v", what, p, err)
		default:
			if !ok {
				w.violate("%s: Get(%q) = %q, model has no such key", what, p, v)
			} else if string(v) != want {
				w.violate("%s: Get(%q) = %q, model has %q", what, p, v, want)
			}
			if w.Scribble {
				scribble(v)
			}
		}
		h, herr := g.Has(kb, nil)
		if herr != nil {
			w.violate("%s: Has(%q) error %v", what, p, herr)
		} else if h != ok {
			w.violate("%s: Has(%q) = %v, model says %v", what, p, h, ok)
		}
		if !spareIntact(kb) {
			w.violate("%s: Has wrote behind its key buffer", what)
		}
		if w.Scribble {
			scribble(kb)
		}
		if w.Failed() {
			return
		}
	}
}

// scanBoth walks a fresh iterator forward and backward and compares with the sorted pairs.
func (w *World) scanBoth(what string, it iterator.Iterator, want []model.Pair) {
	if len(want) > 0 {
		// re-position a few times without running off the end first (an application that seeks
		// around): the iterator drops the table it stood on each time
		it.Seek([]byte(want[0].K))
		it.Last()
		it.Seek([]byte(want[len(want)-1].K))
		it.First()
		it.Seek([]byte(want[len(want)/2].K))
	}
	i := 0
	for ok := it.First(); ok; ok = it.Next() {
		if i >= len(want) {
			w.violate("%s: forward scan yields extra pair %q=%q", what, it.Key(), it.Value())
			return
		}
		if string(it.Key()) != want[i].K || string(it.Value()) != want[i].V {
			w.violate("%s: forward scan pair %d = %q=%q, model %q=%q", what, i, it.Key(), it.Value(), want[i].K, want[i].V)
			return
		}
		if w.Scribble {
			// a caller that builds a longer key from the exposed one (append) writes into the
			// slice's spare capacity: that must not reach the exposed value, nor the other way round
			k, v := it.Key(), it.Value()
			fill := func(b []byte) {
				ext := b[len(b):cap(b)]
				for j := range ext {
					ext[j] = 0xEE
				}
			}
			fill(k)
			if string(it.Key()) != want[i].K || string(it.Value()) != want[i].V {
				w.violate("%s: appending to the exposed key of pair %d changed what the iterator exposes: %q=%q, model %q=%q", what, i, it.Key(), it.Value(), want[i].K, want[i].V)
				return
			}
			fill(v)
			if string(it.Key()) != want[i].K || string(it.Value()) != want[i].V {
				w.violate("%s: appending to the exposed value of pair %d changed what the iterator exposes: %q=%q, model %q=%q", what, i, it.Key(), it.Value(), want[i].K, want[i].V)
				return
			}
		}
		i++
	}
	if i != len(want) {
		w.violate("%s: forward scan ended after %d pairs, model has %d", what, i, len(want))
		return
	}
	if w.Scribble {
		// Seek with a key that is a prefix of a larger caller buffer: the callee must neither
		// change it nor write behind it, and may not keep it (it is overwritten right after)
		for j, p := range want {
			kb := buf(p.K)
			ok := it.Seek(kb)
			if string(kb) != p.K || !spareIntact(kb) {
				w.violate("%s: Seek(%q) modified its key buffer (or the memory behind it)", what, p.K)
				return
			}
			scribble(kb)
			if !ok || string(it.Key()) != want[j].K || string(it.Value()) != want[j].V {
				w.violate("%s: Seek(%q) positioned at %q=%q (ok=%v), model %q=%q", what, p.K, it.Key(), it.Value(), ok, want[j].K, want[j].V)
				return
			}
			if j+1 < len(want) {
				if !it.Next() || string(it.Key()) != want[j+1].K {
					w.violate("%s: Next after Seek(%q) with a reused key buffer went to %q, model %q", what, p.K, it.Key(), want[j+1].K)
					return
				}
			}
		}
	}
	if w.Scribble && len(want) > 1 {
		// the loop idiom: one key buffer, refilled in place before every Seek, nothing between the
		// seeks (forwards, then backwards so that every seek has to move the iterator)
		shared := make([]byte, 0, 64)
		order := make([]int, 0, 2*len(want))
		for j := range want {
			order = append(order, j)
		}
		for j := len(want) - 2; j >= 0; j-- {
			order = append(order, j)
		}
		for _, j := range order {
			shared = append(shared[:0], want[j].K...)
			ok := it.Seek(shared)
			if !ok || string(it.Key()) != want[j].K || string(it.Value()) != want[j].V {
				w.violate("%s: Seek(%q) with the key buffer of the previous Seek refilled in place positioned at %q=%q (ok=%v), model %q=%q", what, want[j].K, it.Key(), it.Value(), ok, want[j].K, want[j].V)
				return
			}
		}
	}
	if err := it.Error(); err != nil {
		w.violate("%s: iterator error %v", what, err)
		return
	}
	i = len(want) - 1
	for ok := it.Last(); ok; ok = it.Prev() {
		if i < 0 {
			w.violate("%s: backward scan yields extra pair %q=%q", what, it.Key(), it.Value())
			return
		}
		if string(it.Key()) != want[i].K || string(it.Value()) != want[i].V {
			w.violate("%s: backward scan pair %d = %q=%q, model %q=%q", what, i, it.Key(), it.Value(), want[i].K, want[i].V)
			return
		}
		i--
	}
	if i != -1 {
		w.violate("%s: backward scan stopped with %d pairs unvisited", what, i+1)
	}
	if err := it.Error(); err != nil {
		w.violate("%s: iterator error %v", what, err)
	}
}

// CheckDB compares the DB's current contents with the model (point reads and a full scan).
func (w *World) CheckDB() {
	w.CheckHeldBatches()
	if w.DB == nil || w.Failed() {
		return
	}
	w.checkReads("db", w.DB, w.M)
	if w.Failed() {
		return
	}
	it := w.DB.NewIterator(nil, nil)
	w.scanBoth("db", it, w.M.Sorted())
	it.Release()
	if w.Failed() {
		return
	}
	// a second Release of that handle ("can be called multiple times") while another iterator is
	// live must not touch the other one
	it2 := w.DB.NewIterator(nil, nil)
	it.Release()
	want := w.M.Sorted()
	ok := it2.First()
	switch {
	case it2.Error() != nil:
		w.violate("db: iterator created after another one was released, then the other released again: error %v", it2.Error())
	case ok != (len(want) > 0) || (ok && (string(it2.Key()) != want[0].K || string(it2.Value()) != want[0].V)):
		w.violate("db: iterator created after another one was released, then the other released again: First() = %v at %q, model has %d pairs", ok, it2.Key(), len(want))
	}
	it2.Release()
}

// CheckViews compares every live snapshot, held iterator and open transaction with its model.
func (w *World) CheckViews() {
	for i, s := range w.Snaps {
		what := fmt.Sprintf("snapshot#%d", i)
		w.checkReads(what, s.s, s.m)
		if w.Failed() {
			return
		}
		it := s.s.NewIterator(nil, nil)
		w.scanBoth(what, it, s.m.Sorted())
		it.Release()
		if w.Failed() {
			return
		}
	}
	for i, iv := range w.Iters {
		w.scanBoth(fmt.Sprintf("held-iterator#%d", i), iv.it, iv.m)
		if w.Failed() {
			return
		}
	}
	if w.Tr != nil {
		w.checkReads("transaction", w.Tr, w.TrM)
		if w.Failed() {
			return
		}
		it := w.Tr.NewIterator(nil, nil)
		w.scanBoth("transaction", it, w.TrM.Sorted())
		it.Release()
	}
}

// ReleaseViews releases everything held (before Close).
func (w *World) ReleaseViews() {
	for _, iv := range w.Iters {
		iv.it.Release()
	}
	w.Iters = nil
	for _, s := range w.Snaps {
		s.s.Release()
	}
	w.Snaps = nil
	if w.Tr != nil {
		w.Tr.Discard()
		w.Tr, w.TrM = nil, nil
	}
}

// Close releases views and closes the DB.
func (w *World) Close() {
	if w.DB == nil {
		return
	}
	w.ReleaseViews()
	w.DB.Close()
	w.DB = nil
}

// CheckResidue: once background work has settled and no view is held, storage must hold
// exactly the live tables, the live journal(s), the live manifest and nothing else.
func (w *World) CheckResidue(what string) {
	if w.DB == nil || len(w.Snaps) > 0 || len(w.Iters) > 0 || w.Tr != nil {
		return
	}
	vsched.Quiesce()
	st := w.DB.VerifState()
	live := map[storage.FileDesc]bool{}
	for _, t := range st.Tables {
		live[storage.FileDesc{Type: storage.TypeTable, Num: t.Num}] = true
	}
	live[storage.FileDesc{Type: storage.TypeJournal, Num: st.JournalNum}] = true
	if st.FrozenLen >= 0 {
		live[storage.FileDesc{Type: storage.TypeJournal, Num: st.FrozenJournal}] = true
	}
	live[storage.FileDesc{Type: storage.TypeManifest, Num: st.ManifestNum}] = true
	for _, fd := range w.Stor.Files() {
		if !live[fd] {
			w.violate("%s: storage holds %v which is not a live table, journal or manifest (live: %d tables, journal %d, manifest %d)", what, fd, len(st.Tables), st.JournalNum, st.ManifestNum)
			return
		}
		delete(live, fd)
	}
	for fd := range live {
		w.violate("%s: live file %v is missing from storage", what, fd)
		return
	}
	if m := w.Stor.Meta(); m.Num != st.ManifestNum || m.Type != storage.TypeManifest {
		w.violate("%s: CURRENT names %v, live manifest is %d", what, m, st.ManifestNum)
	}
}

// Layout summarises where data sits (for non-vacuity statistics).
type Layout struct {
	Mem, Frozen bool
	L0, L1, L2p int
}

func (l Layout) String() string {
	return fmt.Sprintf("mem=%v frozen=%v L0=%d L1=%d L2+=%d", l.Mem, l.Frozen, l.L0, l.L1, l.L2p)
}

func (w *World) Layout() Layout {
	st := w.DB.VerifState()
	l := Layout{Mem: st.MemLen > 0, Frozen: st.FrozenLen >= 0}
	for _, t := range st.Tables {
		switch {
		case t.Level == 0:
			l.L0++
		case t.Level == 1:
			l.L1++
		default:
			l.L2p++
		}
	}
	return l
}

// StateKey is the canonical physical state: storage bytes, in-memory bookkeeping, the
// model, the held views and the goroutine table. Equal keys mean the same DB bit for bit.
func (w *World) StateKey() uint64 {
	h := fnv.New64a()
	fmt.Fprintf(h, "stor=%x;", w.Stor.Hash())
	if w.DB != nil {
		st := w.DB.VerifState()
		fmt.Fprintf(h, "seq=%d;nf=%d;j=%d;fj=%d;sj=%d;ss=%d;mf=%d;ml=%d;ms=%d;fl=%d;tr=%v;cs=%v;cwl=%v;", st.Seq, st.NextFileNum, st.JournalNum,
			st.FrozenJournal, st.StJournalNum, st.StSeqNum, st.ManifestNum, st.MemLen, st.MemSize, st.FrozenLen, st.HasTr, st.CSeek, st.CompWriteLocked)
		for _, t := range st.Tables {
			fmt.Fprintf(h, "t%d/%d/%d/%d;", t.Level, t.Num, t.Size, t.SeekLeft)
		}
		for _, p := range st.CompPtrs {
			fmt.Fprintf(h, "cp%x;", p)
		}
		for _, s := range st.Snapshots {
			fmt.Fprintf(h, "sn%d;", s)
		}
	} else {
		fmt.Fprint(h, "closed;")
	}
	writeModel := func(m *model.KV) {
		for _, p := range m.Sorted() {
			fmt.Fprintf(h, "%q=%q,", p.K, p.V)
		}
		fmt.Fprint(h, ";")
	}
	writeModel(w.M)
	for _, s := range w.Snaps {
		fmt.Fprint(h, "S:")
		writeModel(s.m)
	}
	for _, iv := range w.Iters {
		fmt.Fprint(h, "I:")
		for _, p := range iv.m {
			fmt.Fprintf(h, "%q=%q,", p.K, p.V)
		}
	}
	if w.TrM != nil {
		fmt.Fprint(h, "T:")
		writeModel(w.TrM)
	}
	fmt.Fprintf(h, "gs=%s;timers=%d", vsched.TableKey(), vsched.PendingTimers())
	return h.Sum64()
}
