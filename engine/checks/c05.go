package checks

import (
	"encoding/json"
	"fmt"
	"os"
	"sort"
	"strings"

	"verif/explore"
)

// C05 — linearizability of concurrent use. Closed drivers of 2-3 client goroutines on two
// colliding keys run on the real DB (with its real background goroutines) under the
// cooperative scheduler; every interleaving up to the preemption bound is executed and its
// timestamped call/return history is checked with porcupine against a map-with-batches model.

func c05Drivers() []concParams {
	return []concParams{
		{Name: "program-order", Cfg: "roomy/bytewise", Clients: [][]string{{"put:a", "put:b"}, {"get:b", "get:a"}}, QB: 3, TB: 4, SQ: 2, ST: 2},
		{Name: "batch-atomic", Cfg: "roomy/bytewise", Pre: []string{"put:a", "put:b"}, Clients: [][]string{{"w:+a,+b"}, {"snapget:a,b"}, {"iterscan"}}, QB: 3, TB: 4, SQ: 1, ST: 2},
		{Name: "flush-vs-readers", Cfg: "flushy/bytewise", Clients: [][]string{{"put:a", "put:a"}, {"get:a"}, {"snapget:a"}}, SQ: 1, ST: 1},
		{Name: "flush-vs-iter", Cfg: "flushy/bytewise", Pre: []string{"put:b"}, Clients: [][]string{{"put:a", "put:a"}, {"iterscan"}}},
		{Name: "two-writers-merge", Cfg: "roomy/bytewise", Clients: [][]string{{"put:a", "put:b"}, {"put:b", "put:a"}, {"get:a", "get:b"}}, QB: 2, TB: 4, SQ: 1, ST: 2},
		{Name: "transaction-vs-reader", Cfg: "bigbatch/bytewise", Pre: []string{"put:a"}, Clients: [][]string{{"tr:+a,+b"}, {"get:a", "get:b"}}},
		// a snapshot taken while a transaction commit is in flight is one cut: reading the same key
		// again after the commit finished gives the same answer
		{Name: "transaction-vs-snapshot", Cfg: "bigbatch/bytewise", Pre: []string{"put:a", "put:b"}, Clients: [][]string{{"tr:+a,+b"}, {"snapget:a,b,a"}}, QB: 2, TB: 3, SQ: 1, ST: 1},
		{Name: "transaction-vs-iter", Cfg: "bigbatch/bytewise", Pre: []string{"put:a"}, Clients: [][]string{{"tr:+a,+b"}, {"iterscan"}, {"get:b", "get:a"}}, QB: 1, TB: 3},
		{Name: "compact-vs-rw", Cfg: "flushy/bytewise", Pre: []string{"put:a", "put:b", "q"}, Clients: [][]string{{"put:a"}, {"cr"}, {"get:a", "get:b"}}, QB: 2, TB: 3},
		// Has shares Get's lookup path but not its code: a delete and a re-insert racing a flush
		{Name: "has-vs-delete-flush", Cfg: "flushy/bytewise", Pre: []string{"put:a"}, Clients: [][]string{{"del:a", "put:a"}, {"has:a", "get:a", "has:a"}}, QB: 2, TB: 3},
		// a snapshot taken while a compaction decides which old versions to keep: both reads
		// through it must agree with one cut, whatever the compaction dropped
		{Name: "snapshot-vs-compaction", Cfg: "flushy/bytewise", Pre: []string{"put:a", "put:b", "q"}, Clients: [][]string{{"snapget:a,b,a"}, {"put:a", "cr"}}, QB: 2, TB: 3},
		{Name: "snapshot-vs-delete-compaction", Cfg: "deep/bytewise", Pre: []string{"put:a", "q", "put:b", "q"}, Clients: [][]string{{"snapget:a,b,a"}, {"del:a", "cr"}, {"iterscan"}}, QB: 1, TB: 2},
		// writers queued behind a transaction (a full merge queue in the base schedule) and readers
		{Name: "queue-behind-transaction-readers", Cfg: "roomy/bytewise", Pre: []string{"put:a"}, Clients: [][]string{{"trq:+a,+b"}, {"put:a"}, {"w:+a,-b"}, {"get:a", "get:b"}, {"snapget:a,b"}}, QB: 2, TB: 3},
		// "victim first": the first client is preempted at every statement (statement granularity,
		// one deviation) while the second client and then all background work run to quiescence
		// before it resumes - the shape of a read after an unlock, of a reference taken too late
		{Name: "get-preempted-by-flush", Cfg: "flushy/bytewise", Pre: []string{"put:a", "put:b"}, Clients: [][]string{{"get:a", "get:b"}, {"put:a", "put:a"}}, QB: 2, TB: 3, SQ: 1, ST: 2},
		{Name: "iter-preempted-by-flush", Cfg: "flushy/bytewise", Pre: []string{"put:a", "put:b"}, Clients: [][]string{{"iterscan"}, {"put:a", "put:a"}}, QB: 2, TB: 3, SQ: 1, ST: 2, RevSame: true},
		// a write buffer that still holds earlier acknowledged writes is rotated while a view is
		// being put together (in the flushy option set every put rotates the buffer right after
		// itself, so a buffer being rotated never holds anything older than the rotating write)
		{Name: "iter-preempted-by-rotation", Cfg: "wide/bytewise", Pre: []string{"putM:a", "putE:b"}, Clients: [][]string{{"iterscan"}, {"putL:c"}}, QB: 2, TB: 3, RevSame: true},
		{Name: "readers-preempted-by-rotation", Cfg: "wide/bytewise", Pre: []string{"putM:a", "putE:b"}, Clients: [][]string{{"get:a", "snapget:a,b"}, {"putL:c", "get:b"}}, QB: 2, TB: 3, RevSame: true},
		{Name: "snapshot-preempted-by-compaction", Cfg: "flushy/bytewise", Pre: []string{"put:a", "put:b", "q"}, Clients: [][]string{{"snapget:a,b,a"}, {"put:a", "cr"}}, QB: 1, TB: 2, SQ: 1, ST: 1},
		{Name: "write-preempted-by-writer", Cfg: "roomy/bytewise", Clients: [][]string{{"put:a", "get:a"}, {"put:a", "w:+a,+b"}}, QB: 2, TB: 3, SQ: 1, ST: 2},
		{Name: "get-preempted-by-transaction", Cfg: "bigbatch/bytewise", Pre: []string{"put:a"}, Clients: [][]string{{"get:a", "get:b"}, {"tr:+a,+b"}}, QB: 2, TB: 3, SQ: 1, ST: 1},
		// two readers sharing a one-block cache and the buffer pool (filter and data blocks evicted
		// and their buffers reused while the other reader is still looking at them)
		{Name: "readers-share-tiny-cache", Cfg: "tinybloom/bytewise", Pre: []string{"put:a", "put:b", "put:c", "cr", "q"}, Clients: [][]string{{"get:a", "get:c"}, {"get:b", "get:a", "get:c"}}, QB: 2, TB: 3, SQ: 1, ST: 2},
		// the same with one reader that does not fill the caches (get-only cache lookups racing fills)
		{Name: "nofill-reader-shares-tiny-cache", Cfg: "tinybloom/bytewise", Pre: []string{"put:a", "put:b", "put:c", "cr", "q"}, Clients: [][]string{{"getnf:a", "getnf:c", "get:a"}, {"get:b", "get:a", "get:c"}}, QB: 2, TB: 3},
		// a range compaction (CompactRange gives the write lock back before it starts compacting)
		// whose version edits are committed while a transaction commits its own
		{Name: "compactrange-vs-transaction", Cfg: "flushy/bytewise", Pre: []string{"put:a", "put:b", "put:c"}, Clients: [][]string{{"cr"}, {"tr:+a,+b"}, {"get:a", "get:b", "get:c"}}, QB: 1, TB: 2, SQ: 1, ST: 1},
		{Name: "transaction-vs-compactrange", Cfg: "flushy/bytewise", Pre: []string{"put:a", "put:b", "put:c"}, Clients: [][]string{{"tr:+a,+b", "get:c"}, {"cr"}}, QB: 1, TB: 2, SQ: 1, ST: 1},
		// a Write that leads a group and merges a pending Put into a pooled scratch batch, after
		// earlier Puts have been through the pool
		{Name: "write-leader-merges-put", Cfg: "roomy/bytewise", Pre: []string{"put:b", "w:+b,+c"}, Clients: [][]string{{"w:+c,+a"}, {"put:a"}, {"get:b", "get:a"}}, QB: 2, TB: 3},
		// writers that are slowed down and then wait for the table compaction (level-0 pause trigger)
		{Name: "throttled-writers", Cfg: "throttle/bytewise", Pre: []string{"put:a", "put:b"}, Clients: [][]string{{"put:a", "put:b"}, {"put:c", "get:a"}, {"tr:+a,+b"}}, QB: 1, TB: 2},
		{Name: "bigbatch-vs-reader", Cfg: "bigbatch/bytewise", Pre: []string{"put:a", "put:b"}, Clients: [][]string{{"w:+a,+b,-a,+a"}, {"snapget:a,b"}}, QB: 2, TB: 3},
	}
}

func runConcChecks(c *explore.Ctx, id string, drivers []concParams, bound int, perTask int) {
	pool := explore.NewPool(0, "worker", id)
	defer pool.Close()
	// happens-before state caching (vsched/hb.go); VERIF_HB=0 runs the plain search
	explore.UseHB = os.Getenv("VERIF_HB") != "0"
	defer func() { explore.UseHB = false }()
	per := map[string]any{}
	exh := true
	hists := 0
	// every driver is searched a second time from another base schedule (newest goroutine first
	// when the running one blocks), one bound lower: deviations are counted from the base, so
	// a schedule far from one base can be close to the other
	n := len(drivers)
	for i := 0; i < n; i++ {
		d := drivers[i]
		d.Name += "@rev"
		d.Rev = true
		if d.QB == 0 {
			d.QB = bound
		}
		if d.TB == 0 {
			d.TB = bound
		}
		if !d.RevSame {
			d.QB, d.TB = max(1, d.QB-1), max(1, d.TB-1)
		}
		drivers = append(drivers, d)
	}
	// statement granularity inside package leveldb: a third variant of the drivers that ask for
	// it (unsynchronised accesses - a read after an unlock, a scratch buffer shared by two callers -
	// are invisible to scheduling at synchronisation operations)
	for i := 0; i < 2*n; i++ {
		d := drivers[i] // the drivers and their @rev twins: both base schedules
		sb := d.SQ
		if c.Tier == "thorough" {
			sb = d.ST
		}
		if sb <= 0 {
			continue
		}
		if d.Rev && sb > 1 {
			sb--
		}
		d.Name += "@stmt"
		d.Stmt = true
		d.QB, d.TB, d.WQ, d.WT = sb, sb, 0, 0
		drivers = append(drivers, d)
	}
	// cheap first: the statement-granularity variants (bound 1: a few thousand executions each),
	// then the drivers at their full bounds, then the second base schedule - if the time budget
	// runs out it cuts the most expensive tail
	sort.SliceStable(drivers, func(i, j int) bool {
		rank := func(d concParams) int {
			switch {
			case d.Stmt:
				return 0
			case d.Rev:
				return 2
			}
			return 1
		}
		return rank(drivers[i]) < rank(drivers[j])
	})
	hbWanted := explore.UseHB
	wdoneBy := map[string]int{}
	// two phases, so that a short time budget cuts depth and not breadth: first every driver up to
	// bound 1 (a few hundred to a few thousand executions each), then every driver from bound 2 to
	// its target, in the same order
	type dstate struct {
		completed int
		last      *explore.DFSStats
		stopped   bool // violation, nondeterminism or cap: no deeper bound for this driver
		hbOff     bool
	}
	states := make([]*dstate, len(drivers))
	target := func(d concParams) int {
		b := bound
		if c.Tier == "quick" && d.QB > 0 {
			b = d.QB
		}
		if c.Tier == "thorough" && d.TB > 0 {
			b = d.TB
		}
		return b
	}
	for phase := 0; phase < 2; phase++ {
		for di, d := range drivers {
			if !cfgSelected(d.Name) {
				continue
			}
			if states[di] == nil {
				states[di] = &dstate{completed: -1}
			}
			ds := states[di]
			bound := target(d)
			lo, hi := 0, min(bound, 1)
			if phase == 1 {
				lo, hi = 2, bound
			}
			if lo > hi || ds.stopped {
				continue
			}
			// at statement granularity every point is a potential access to anything: the
			// happens-before fingerprints cannot order them, the plain search is used
			explore.UseHB = hbWanted && !d.Stmt && !ds.hbOff
			if phase == 1 && explore.UseHB && !c.OutOfTime() {
				// cross-check of the happens-before state caching on this very driver: the plain
				// search and the caching search one bound below the target (at most 2) must see the
				// same set of observable histories; otherwise caching is switched off for this run
				cb := min(bound-1, 2)
				explore.UseHB = false
				ref := explore.RunDFS(c, pool, "conc", d, cb, perTask)
				explore.UseHB = true
				got := explore.RunDFS(c, pool, "conc", d, cb, perTask)
				c.Add("hb_crosscheck_runs", 1)
				if !ref.Capped && !got.Capped && (!sameSet(ref.Hists, got.Hists) || len(ref.Outcomes) != len(got.Outcomes)) {
					fmt.Printf("HB-CROSSCHECK-MISMATCH driver=%s bound=%d plain=%d histories caching=%d: state caching switched off\n", d.Name, cb, len(ref.Hists), len(got.Hists))
					c.Add("hb_crosscheck_mismatch", 1)
					explore.UseHB = false
					ds.hbOff = true
				}
			}
			for b := lo; b <= hi; b++ {
				if c.OutOfTime() {
					break
				}
				st := explore.RunDFS(c, pool, "conc", d, b, perTask)
				ds.last = st
				if os.Getenv("VERIF_VERBOSE") != "" {
					fmt.Printf("    %s bound=%d execs=%d pruned=%d traces=%d hists=%d capped=%v maxpoints=%d subtrees=%d t=%.1fs\n", d.Name, b, st.Execs, st.Pruned, len(st.HBTraces), len(st.Hists), st.Capped, st.MaxPoints, st.Subtrees, c.Elapsed().Seconds())
				}
				if st.Nondet != "" {
					fmt.Printf("NONDETERMINISM in %s: %s\n", d.Name, st.Nondet)
					c.Coverage["nondeterminism"] = st.Nondet
					exh = false
					ds.stopped = true
					break
				}
				unknown := 0
				for _, v := range st.Viols {
					if !reportConc(c, id, d, v) {
						unknown++
					}
				}
				if unknown > 0 || st.Capped {
					ds.stopped = true
					break
				}
				ds.completed = b
			}
			if ds.completed < hi {
				continue // out of time (or stopped): the summary below reports what was completed
			}
			if ds.completed < bound {
				continue // phase 0 of a driver whose target is deeper
			}
			// weighted search: fewer preemptions, more reorderings of who runs when the current
			// goroutine blocks (budget units: preemption 2, choice at a blocking point 1)
			wb := d.WQ
			if c.Tier == "thorough" {
				wb = d.WT
			}
			if wb > 0 && ds.last != nil {
				wdone := -1
				var wlast *explore.DFSStats
				explore.UseWeighted = true
				for b := 2 * bound; b <= wb && !c.OutOfTime(); b++ {
					st := explore.RunDFS(c, pool, "conc", d, b, perTask)
					wlast = st
					if st.Nondet != "" {
						fmt.Printf("NONDETERMINISM in %s (weighted): %s\n", d.Name, st.Nondet)
						c.Coverage["nondeterminism"] = st.Nondet
						break
					}
					unknown := 0
					for _, v := range st.Viols {
						if !reportConc(c, id, d, v) {
							unknown++
						}
					}
					if unknown > 0 || st.Capped {
						break
					}
					wdone = b
				}
				explore.UseWeighted = false
				if wdone < wb {
					exh = false
				}
				wdoneBy[d.Name] = wdone
				if wlast != nil {
					c.Add("evaluations", wlast.Execs)
					for h := range wlast.Hists {
						ds.last.Hists[h] = true
					}
					fmt.Printf("  %-24s weighted budget %d/%d execs=%d pruned=%d hists=%d\n", d.Name, wdone, wb, wlast.Execs, wlast.Pruned, len(wlast.Hists))
				}
			}
		}
	}
	for di, d := range drivers {
		ds := states[di]
		if ds == nil {
			continue
		}
		bound := target(d)
		last, completed := ds.last, ds.completed
		wb := d.WQ
		if c.Tier == "thorough" {
			wb = d.WT
		}
		wdone, ok := wdoneBy[d.Name]
		if !ok {
			wdone = -1
			if wb > 0 {
				exh = false
			}
		}
		if last == nil {
			exh = false
			continue
		}
		if completed < bound {
			exh = false
		}
		c.Add("evaluations", last.Execs)
		c.Add("determinism_rechecks", last.Rechecks)
		hists += len(last.Hists)
		avg := 0
		if last.Execs > 0 {
			avg = last.SumPoints / last.Execs
		}
		per[d.Name] = map[string]any{"cfg": d.Cfg, "clients": d.Clients, "pre": d.Pre, "bound_completed": completed, "bound_target": bound, "executions_at_last_bound": last.Execs,
			"distinct_histories": len(last.Hists), "distinct_outcomes": len(last.Outcomes), "max_choice_points": last.MaxPoints, "avg_choice_points": avg, "subtrees": last.Subtrees,
			"pruned_at_visited_state": last.Pruned, "distinct_hb_traces": len(last.HBTraces), "weighted_budget_target": wb, "weighted_budget_completed": wdone}
		if last.Aux > 0 {
			per[d.Name].(map[string]any)["crash_images_recovered"] = last.Aux
			c.Add("concurrent_crash_images", last.Aux)
		}
		fmt.Printf("  %-24s bound %d/%d execs=%d pruned=%d traces=%d hists=%d outcomes=%d maxpoints=%d\n", d.Name, completed, bound, last.Execs, last.Pruned, len(last.HBTraces), len(last.Hists), len(last.Outcomes), last.MaxPoints)
		if len(c.Coverage) < 1000 {
			c.Sample(map[string]any{"driver": d.Name, "clients": d.Clients, "outcomes": keysOf(last.Outcomes, 4)})
		}
	}
	c.Add("distinct_nontrivial", hists)
	c.Coverage["per_driver"] = per
	c.SetExhaustive(exh)
	c.Coverage["bound"] = bound
	c.Coverage["worker_crashes"] = pool.Crashes
	c.Coverage["hb_state_caching"] = hbWanted
	if p := wherePools[id]; p != nil {
		p.Close()
		delete(wherePools, id)
	}
}

func sameSet(a, b map[uint64]bool) bool {
	if len(a) != len(b) {
		return false
	}
	for k := range a {
		if !b[k] {
			return false
		}
	}
	return true
}

func keysOf(m map[string]int, n int) []string {
	var out []string
	for _, k := range sortedKeys(m) {
		if len(out) < n {
			out = append(out, k)
		}
	}
	return out
}

func reportConc(c *explore.Ctx, id string, d concParams, v explore.DFSViolation) bool {
	eff := "?"
	if len(v.Viol) > 0 {
		eff = v.Viol[0]
	}
	blockedAt := ""
	if v.Verdict != "completed" && c.Viol+c.Known < 50 {
		// diagnostic re-run of exactly this schedule with call sites recorded
		d2 := d
		d2.Where = true
		t := explore.DFSTask{Scenario: "conc", Params: explore.MustJSON(d2), Prefix: v.Choices, Budget: 0, MaxExecs: 1}
		wherePool(id).Map([][]byte{explore.MustJSON(t)}, func(_ int, b []byte, err error) {
			var r explore.DFSResult
			if err == nil && json.Unmarshal(b, &r) == nil && len(r.Viols) > 0 {
				v.Blocked = r.Viols[0].Blocked
			}
		})
		var sites []string
		for _, bl := range v.Blocked {
			if strings.Contains(bl, "(client") || strings.Contains(bl, "g0(main)") {
				if j := strings.Index(bl, " at "); j >= 0 && strings.Contains(bl, " blocked ") {
					sites = append(sites, stripLines(bl[j+4:]))
				}
			}
		}
		sort.Strings(sites)
		blockedAt = strings.Join(sites, " | ")
	}
	return c.Report(&explore.Violation{Property: id, Sig: map[string]string{
		"check": "sched", "driver": d.Name, "config": d.Cfg, "verdict": v.Verdict, "effect": eff, "blocked": blockedAt,
	}, Detail: map[string]any{"task": explore.DFSTask{Scenario: "conc", Params: explore.MustJSON(d), Prefix: v.Choices, Budget: 0, MaxExecs: 1}, "violation": v}})
}

func init() {
	register(&Check{
		ID:     "C05",
		Level:  "exploration",
		Worker: dfsWorker(map[string]func(json.RawMessage) explore.RunFunc{"conc": concScenario}),
		Main: func(c *explore.Ctx) {
			bound := 2
			runConcChecks(c, "C05", c05Drivers(), bound, 0)
			c.Coverage["rule"] = "stateless DFS over scheduler choice lists with iterative preemption bounding (0..bound); every execution runs the real DB including its flush/compaction/reference goroutines; distinct_nontrivial = distinct observable call/return histories over all drivers; each history checked for linearizability with porcupine"
			c.Assume = []string{"sequentially consistent memory; data-race freedom audited separately", "timers fire only at quiescence", "scheduling points before lock/atomic/channel/select/waitgroup operations (releases are left-movers and are not points)"}
		},
	})
}
