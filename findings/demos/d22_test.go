package findings

import (
	"testing"

	"github.com/syndtr/goleveldb/leveldb"
	"github.com/syndtr/goleveldb/leveldb/opt"
	"github.com/syndtr/goleveldb/leveldb/storage"
)

// lostAckMeta performs SetMeta and then reports a failure, once (what a failed directory
// sync after the rename of CURRENT looks like to the caller).
type lostAckMeta struct {
	storage.Storage
	arm int
}

func (s *lostAckMeta) SetMeta(fd storage.FileDesc) error {
	err := s.Storage.SetMeta(fd)
	if err == nil && s.arm > 0 {
		s.arm--
		return errInjected
	}
	return err
}

// D22 (C08): switching CURRENT to a new manifest took effect but was reported as failed; the
// session removed the new manifest file, so CURRENT named a file that no longer existed and
// every later Open failed ("database entry point either missing or corrupted").
func TestD22_CurrentSwitchedButReportedFailed(t *testing.T) {
	st := &lostAckMeta{Storage: storage.NewMemStorage()}
	db, err := leveldb.Open(st, flushy())
	if err != nil {
		t.Fatal(err)
	}
	if err := db.Put([]byte("a"), []byte("v1"), &opt.WriteOptions{Sync: true}); err != nil {
		t.Fatal(err)
	}
	db.Close()
	st.arm = 1
	db, err = leveldb.Open(st, flushy()) // may fail: the storage reported an error
	if err == nil {
		db.Close()
	}
	for i := 0; i < 2; i++ {
		db, err = leveldb.Open(st, flushy())
		if err != nil {
			t.Fatalf("Open #%d after the failures stopped: %v", i+2, err)
		}
		mustGet(t, db, "a", "v1")
		db.Close()
	}
}
