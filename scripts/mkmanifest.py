#!/usr/bin/env python3
"""Regenerates /verif/MANIFEST.json from the table below (single source of truth)."""
import json, os
ROOT = os.path.dirname(os.path.dirname(os.path.abspath(__file__)))
props = [json.loads(l)['id'] for l in open(os.path.join(ROOT, 'properties.jsonl'))]

CHECKS = {
 'C01': dict(level='model_checking', technique='explicit-state breadth-first search over public-API operation sequences on the real DB under a deterministic cooperative scheduler, canonical-state de-duplication, sorted-map reference model',
   text='Every sequence of Put/Delete/Write/CompactRange/Quiesce/Reopen up to the stated depth is executed on the real code for each layout-forcing option set and each of five comparers; after every transition Get/Has on probe keys and a full two-way scan must equal a sorted-map model. Exhaustive within the depth, so any read-path or compaction defect reachable by a short program under those layouts is found with its shortest program.',
   note='Trusted: vsched shims model Go channel/mutex/atomic semantics; vrewrite instruments syntactically; keys from a 3-key alphabet; background work runs only at client blocking points or explicit Quiesce (other interleavings are C05). State merge ignores cache/pool contents.',
   design='4/C01'),
}
NA = {}

def main():
    checks = []
    for pid in props:
        if pid in CHECKS:
            c = CHECKS[pid]
            checks.append({
                'property_id': pid,
                'quick_cmd': f'scripts/check.sh {pid} quick',
                'thorough_cmd': f'scripts/check.sh {pid} thorough',
                'evidence_file': f'evidence/{pid}.json',
                'replay_cmd_template': 'scripts/check.sh replay {path}',
                'engine': 'verif-engine',
                'level_claimed': {'category': c['level'], 'text': c['text'], 'design_ref': c['design']},
                'level_note': c['note'],
                'technique': c['technique'],
            })
    na = [{'property_id': p, 'reason': NA.get(p, 'check not built yet in this revision (work in progress; planned per DESIGN.md section 4)')}
          for p in props if p not in CHECKS]
    m = {
        'version': 1,
        'setup_cmd': 'scripts/setup.sh',
        'hooks': {
            'guard': 'verif',
            'enable': 'scripts/build.sh: vrewrite instruments the current /repo tree into a scratch dir and go build -overlay ... -tags verif substitutes it; observation hooks from /verif/hooks are added to package leveldb through the same overlay; /repo carries no hook commits',
            'baseline_off_cmd': 'cd /repo && GOFLAGS=-mod=mod GOPROXY=off GOSUMDB=off go test -vet=off -count=1 -timeout 25m ./...',
            'source_commits': [],
            'add_only': True,
        },
        'engines': [
            {'name': 'verif-engine', 'path': 'engine', 'serves_properties': sorted(CHECKS), 'kind_free_text': 'hand-written stateless model checker for Go: syntactic instrumenter (vrewrite) + cooperative scheduler owning goroutines/channels/select/locks/atomics/timers (vsched) + recording/faulting/crash-image storage (vstor) + BFS/DFS explorers over worker subprocesses'},
        ],
        'checks': checks,
        'not_applicable': na,
        'notes': 'Exit codes: 0 held (KNOWN-FINDING lines possible), 1 violation, 2 machinery/build error (never with a VIOLATION line). VERIF_BUDGET_S caps wall time per check; a capped run reports exhaustive:false.',
    }
    json.dump(m, open(os.path.join(ROOT, 'MANIFEST.json'), 'w'), indent=1)
    print('wrote MANIFEST.json with', len(checks), 'checks,', len(na), 'not_applicable')

if __name__ == '__main__':
    main()
