//go:build verif

package leveldb

// Observation-only exports for the verification harness. This file is *added* to package
// leveldb through the build overlay (it never exists in /repo). Nothing here changes the
// control flow of the DB. The harness calls these while every other goroutine is parked at
// a scheduling point, so unlocked reads are race-free.

import (
	"github.com/syndtr/goleveldb/leveldb/comparer"
	"github.com/syndtr/goleveldb/leveldb/filter"
	"github.com/syndtr/goleveldb/leveldb/memdb"
	"github.com/syndtr/goleveldb/leveldb/storage"
)

// VerifTable is the exact metadata of one live table.
type VerifTable struct {
	Level      int
	Num        int64
	Size       int64
	Imin, Imax []byte
	SeekLeft   int32
}

// VerifState is a snapshot of the DB's in-memory bookkeeping.
type VerifState struct {
	Seq             uint64
	VersionID       int64
	Tables          []VerifTable
	NextFileNum     int64
	JournalNum      int64
	FrozenJournal   int64
	StJournalNum    int64
	StSeqNum        uint64
	ManifestNum     int64
	MemLen          int
	MemSize         int
	FrozenLen       int // -1: no frozen buffer
	CompPtrs        [][]byte
	Snapshots       []uint64
	HasTr           bool
	Closed          bool
	AliveIters      int32
	AliveSnaps      int32
	CScore          float64
	CLevel          int
	CSeek           bool
	CompWriteLocked bool
}

func (db *DB) VerifState() VerifState {
	var st VerifState
	st.Seq = db.seq
	st.Closed = db.closed != 0
	s := db.s
	if s == nil {
		return st
	}
	if v := s.stVersion; v != nil {
		st.VersionID = v.id
		for level, tt := range v.levels {
			for _, t := range tt {
				st.Tables = append(st.Tables, VerifTable{Level: level, Num: t.fd.Num, Size: t.size,
					Imin: append([]byte(nil), t.imin...), Imax: append([]byte(nil), t.imax...), SeekLeft: t.seekLeft})
			}
		}
		st.CScore = v.cScore
		st.CLevel = v.cLevel
		st.CSeek = v.cSeek != nil
	}
	st.NextFileNum = s.stNextFileNum
	st.StJournalNum = s.stJournalNum
	st.StSeqNum = s.stSeqNum
	st.ManifestNum = s.manifestFd.Num
	st.JournalNum = db.journalFd.Num
	st.FrozenJournal = db.frozenJournalFd.Num
	if db.mem != nil && db.mem.DB != nil {
		st.MemLen = db.mem.Len()
		st.MemSize = db.mem.Size()
	}
	st.FrozenLen = -1
	if db.frozenMem != nil && db.frozenMem.DB != nil {
		st.FrozenLen = db.frozenMem.Len()
	}
	for _, p := range s.stCompPtrs {
		st.CompPtrs = append(st.CompPtrs, append([]byte(nil), p...))
	}
	for e := db.snapsList.Front(); e != nil; e = e.Next() {
		st.Snapshots = append(st.Snapshots, e.Value.(*snapshotElement).seq)
	}
	st.HasTr = db.tr != nil
	st.AliveIters = db.aliveIters
	st.AliveSnaps = db.aliveSnaps
	st.CompWriteLocked = db.compWriteLocking
	return st
}

// VerifVersionID returns the id of the current version (-1 if none).
func (db *DB) VerifVersionID() int64 {
	if db.s == nil || db.s.stVersion == nil {
		return -1
	}
	return db.s.stVersion.id
}

// VerifMemEntries returns the internal keys and values held in the write buffer (which=0)
// or the frozen buffer (which=1).
func (db *DB) VerifMemEntries(which int) (keys, vals [][]byte) {
	var m *memDB
	if which == 0 {
		m = db.mem
	} else {
		m = db.frozenMem
	}
	if m == nil || m.DB == nil {
		return
	}
	return verifDumpMem(m.DB)
}

func verifDumpMem(m *memdb.DB) (keys, vals [][]byte) {
	it := m.NewIterator(nil)
	defer it.Release()
	for it.Next() {
		keys = append(keys, append([]byte(nil), it.Key()...))
		vals = append(vals, append([]byte(nil), it.Value()...))
	}
	return
}

// VerifParseIKey splits an internal key.
func VerifParseIKey(ik []byte) (ukey []byte, seq uint64, del bool, ok bool) {
	u, s, kt, err := parseInternalKey(ik)
	if err != nil {
		return nil, 0, false, false
	}
	return u, s, kt == keyTypeDel, true
}

// VerifMakeIKey builds an internal key; kind: 0=del 1=val (seek uses val, as the DB does).
func VerifMakeIKey(ukey []byte, seq uint64, kind int) []byte {
	return makeInternalKey(nil, ukey, seq, keyType(kind))
}

const (
	VerifKeyMaxSeq  = keyMaxSeq
	VerifKeyTypeDel = int(keyTypeDel)
	VerifKeyTypeVal = int(keyTypeVal)
	VerifKeyTypeSeek = int(keyTypeSeek)
)

// VerifIComparer returns the internal comparer built on ucmp.
func VerifIComparer(ucmp comparer.Comparer) comparer.BasicComparer {
	return &iComparer{ucmp: ucmp}
}

// VerifIComparerFull exposes Separator/Successor of the internal comparer too.
func VerifIComparerFull(ucmp comparer.Comparer) comparer.Comparer {
	return &iComparer{ucmp: ucmp}
}

// VerifLiveTableNums lists the table numbers of the current version.
func (db *DB) VerifLiveTableNums() map[int64]bool {
	out := map[int64]bool{}
	if v := db.s.stVersion; v != nil {
		for _, tt := range v.levels {
			for _, t := range tt {
				out[t.fd.Num] = true
			}
		}
	}
	return out
}

var _ = storage.TypeTable

// VerifIFilter wraps a user filter the way the DB does (filters see user keys).
func VerifIFilter(f filter.Filter) filter.Filter { return iFilter{f} }
