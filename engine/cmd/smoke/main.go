package main

import (
	"fmt"
	"time"

	"github.com/syndtr/goleveldb/leveldb"
	"github.com/syndtr/goleveldb/leveldb/opt"
	"github.com/syndtr/goleveldb/leveldb/storage"
	"verif/vsched"
)

func main() {
	t0 := time.Now()
	n := 0
	for i := 0; i < 200; i++ {
		res := vsched.Run(vsched.Options{}, func() {
			stor := storage.NewMemStorage()
			db, err := leveldb.Open(stor, &opt.Options{WriteBuffer: 1, CompactionL0Trigger: 2})
			if err != nil {
				panic(err)
			}
			for j := 0; j < 6; j++ {
				if err := db.Put([]byte{byte('a' + j%3)}, []byte(fmt.Sprint("v", j)), nil); err != nil {
					panic(err)
				}
			}
			vsched.Quiesce()
			v, err := db.Get([]byte("a"), nil)
			if i == 0 {
				fmt.Println(string(v), err)
				s, _ := db.GetProperty("leveldb.stats")
				fmt.Println(s)
			}
			db.Close()
		})
		if res.Verdict != vsched.Completed {
			fmt.Println(res.Verdict, res.PanicValue, res.PanicStack, res.Blocked)
			return
		}
		n += res.Steps
	}
	fmt.Println("ok", n, time.Since(t0))
}
