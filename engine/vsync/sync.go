// Package vsync mirrors the parts of package sync that goleveldb uses, on top of vsched.
package vsync

import (
	"runtime"

	"verif/vsched"
)

type Locker interface {
	Lock()
	Unlock()
}

// Mutex: not re-entrant; Lock is a scheduling point, enabled when the mutex is free.
type Mutex struct {
	id     uint64
	locked bool
}

func (m *Mutex) oid() uint64 {
	if m.id == 0 {
		m.id = vsched.NewObj()
	}
	return m.id
}

func (m *Mutex) Lock() {
	if !vsched.Point(vsched.OpLock, m.oid(), func() bool { return !m.locked }) {
		return
	}
	m.locked = true
}

func (m *Mutex) TryLock() bool {
	if !vsched.Point(vsched.OpLock, m.oid(), nil) {
		return false
	}
	if m.locked {
		return false
	}
	m.locked = true
	return true
}

func (m *Mutex) Unlock() {
	if vsched.UnlockPoints {
		if !vsched.Point(vsched.OpUnlock, m.oid(), nil) {
			return
		}
	} else if vsched.Aborting() {
		return
	}
	if !m.locked {
		panic("sync: unlock of unlocked mutex")
	}
	vsched.Event(vsched.OpUnlock, m.oid(), true)
	m.locked = false
}

// RWMutex with Go's writer preference: a Lock that has announced itself excludes new
// readers. Lock is therefore two scheduling points (announce, acquire).
type RWMutex struct {
	id       uint64
	writer   bool
	readers  int
	wwaiting int
}

func (m *RWMutex) oid() uint64 {
	if m.id == 0 {
		m.id = vsched.NewObj()
	}
	return m.id
}

func (m *RWMutex) Lock() {
	if !vsched.Point(vsched.OpLockAnnounce, m.oid(), nil) {
		return
	}
	m.wwaiting++
	if !vsched.Point(vsched.OpLock, m.oid(), func() bool { return !m.writer && m.readers == 0 }) {
		return
	}
	m.wwaiting--
	m.writer = true
}

func (m *RWMutex) Unlock() {
	if vsched.UnlockPoints {
		if !vsched.Point(vsched.OpUnlock, m.oid(), nil) {
			return
		}
	} else if vsched.Aborting() {
		return
	}
	if !m.writer {
		panic("sync: Unlock of unlocked RWMutex")
	}
	vsched.Event(vsched.OpUnlock, m.oid(), true)
	m.writer = false
}

func (m *RWMutex) RLock() {
	if !vsched.Point(vsched.OpRLock, m.oid(), func() bool { return !m.writer && m.wwaiting == 0 }) {
		return
	}
	m.readers++
}

func (m *RWMutex) RUnlock() {
	if vsched.UnlockPoints {
		if !vsched.Point(vsched.OpUnlock, m.oid(), nil) {
			return
		}
	} else if vsched.Aborting() {
		return
	}
	if m.readers <= 0 {
		panic("sync: RUnlock of unlocked RWMutex")
	}
	vsched.Event(vsched.OpUnlock, m.oid(), false)
	m.readers--
}

func (m *RWMutex) RLocker() Locker { return (*rlocker)(m) }

type rlocker RWMutex

func (r *rlocker) Lock()   { (*RWMutex)(r).RLock() }
func (r *rlocker) Unlock() { (*RWMutex)(r).RUnlock() }

// WaitGroup.
type WaitGroup struct {
	id uint64
	n  int
}

func (w *WaitGroup) oid() uint64 {
	if w.id == 0 {
		w.id = vsched.NewObj()
	}
	return w.id
}

func (w *WaitGroup) Add(d int) {
	if vsched.Aborting() {
		return
	}
	vsched.Event(vsched.OpWait, w.oid(), true)
	w.n += d
	if w.n < 0 {
		panic("sync: negative WaitGroup counter")
	}
}

func (w *WaitGroup) Done() { w.Add(-1) }

func (w *WaitGroup) Wait() {
	vsched.Point(vsched.OpWait, w.oid(), func() bool { return w.n == 0 })
}

// Once.
type Once struct {
	id      uint64
	done    bool
	running bool
}

func (o *Once) Do(f func()) {
	if o.id == 0 {
		o.id = vsched.NewObj()
	}
	if !vsched.Point(vsched.OpOnce, o.id, func() bool { return !o.running }) {
		return
	}
	if o.done {
		return
	}
	o.running = true
	defer func() { vsched.Event(vsched.OpOnce, o.id, true); o.running = false; o.done = true }()
	f()
}

// Pool: deterministic LIFO free list (never drops items, so reuse is maximal, which is
// the adversarial case for aliasing).
type Pool struct {
	New   func() any
	items []any
	id    uint64
}

func (p *Pool) ev() {
	if p.id == 0 {
		p.id = vsched.NewObj()
	}
	vsched.Event(vsched.OpPool, p.id, true)
}

func (p *Pool) Get() any {
	p.ev()
	if n := len(p.items); n > 0 {
		x := p.items[n-1]
		p.items[n-1] = nil
		p.items = p.items[:n-1]
		return x
	}
	if p.New != nil {
		return p.New()
	}
	return nil
}

// DoublePuts collects diagnostics when DebugPool is set: a byte buffer put into a pool that
// already holds the same backing array.
var lastPut map[*byte]string

var (
	DebugPool  bool
	DoublePuts []string
)

func (p *Pool) Put(x any) {
	if x == nil {
		return
	}
	p.ev()
	if DebugPool {
		if b, ok := x.(*[]byte); ok && cap(*b) > 0 {
			for _, it := range p.items {
				if o, ok := it.(*[]byte); ok && cap(*o) > 0 && &(*o)[:1][0] == &(*b)[:1][0] {
					buf := make([]byte, 4096)
					buf = buf[:runtime.Stack(buf, false)]
					DoublePuts = append(DoublePuts, "SECOND PUT:\n"+string(buf)+"\nFIRST PUT:\n"+lastPut[&(*b)[:1][0]])
				}
			}
			buf := make([]byte, 4096)
			buf = buf[:runtime.Stack(buf, false)]
			if lastPut == nil {
				lastPut = map[*byte]string{}
			}
			lastPut[&(*b)[:1][0]] = string(buf)
		}
	}
	p.items = append(p.items, x)
}
