package checks

import (
	"encoding/json"
	"fmt"
	"strings"

	"github.com/syndtr/goleveldb/leveldb/cache"
	"verif/explore"
)

// C17, sequential part: every sequence of cache operations up to a depth, on the real
// cache.Cache + LRU, from one goroutine. Alphabet: Get+Release and Get+hold on keys of charge
// 1 (two namespaces) and one key of charge 2 (oversized when the capacity is 1), release of the
// oldest / newest held handle, Delete (with callback), Evict, EvictNS, EvictAll, SetCapacity.
// The oracle never trusts the cache's own accounting: the charge "retained by the replacement
// policy" is recomputed as the sum of the charges of the values that are constructed, not yet
// finalised and have no client handle - after every operation it must fit the capacity.
//
// What a concurrent driver of three operations cannot reach - a node pushed out of the LRU
// while pinned, deleted, released, followed by further insertions - is five or six steps here.

type c17SeqTask struct {
	Cap   int      `json:"cap"`
	First []string `json:"first"` // fixed leading operations (sharding)
	Depth int      `json:"depth"` // total sequence length
}

type c17SeqResult struct {
	Seqs  int      `json:"seqs"`
	Steps int      `json:"steps"`
	Viol  []string `json:"viol"`
	Max   int      `json:"max_retained"`
}

var c17SeqAlpha = []string{
	"get:1", "get:2", "get:3", "get:9", "get:101", "getnil:1",
	"hold:1", "hold:2", "hold:9",
	"rel", "reln",
	"del:1", "del:2", "del:9",
	"evict:1", "evict:101", "evictns:0", "evictall",
	"cap:1", "cap:2",
}

type c17SeqWorld struct {
	c17World
	charge map[*cval]int
	held   []*cache.Handle
	capNow int
}

func c17Key(arg int) (ns, key uint64, charge int) {
	switch {
	case arg >= 100:
		return 1, uint64(arg - 100), 1
	case arg == 9:
		return 0, 9, 2
	}
	return 0, uint64(arg), 1
}

func (w *c17SeqWorld) mkey(ns, key uint64) uint64 { return ns<<32 | key }

func (w *c17SeqWorld) doGet(arg int, hold bool) {
	ns, key, charge := c17Key(arg)
	mk := w.mkey(ns, key)
	h := w.c.Get(ns, key, func() (int, cache.Value) {
		if lv := w.live[mk]; lv != nil {
			w.bad("constructor for key %d/%d runs while value #%d of that key is still live", ns, key, lv.id)
		}
		w.nvals++
		v := &cval{id: w.nvals, key: mk, w: &w.c17World}
		w.live[mk] = v
		w.charge[v] = charge
		return charge, v
	})
	if h == nil {
		w.bad("Get(%d/%d) returned nil on an open cache", ns, key)
		return
	}
	v, _ := h.Value().(*cval)
	if v == nil {
		w.bad("Get(%d/%d) returned a handle without value", ns, key)
		h.Release()
		return
	}
	if v.released > 0 {
		w.bad("Get(%d/%d) handed out value #%d which is already finalised", ns, key, v.id)
	}
	if lv := w.live[mk]; lv != v {
		w.bad("Get(%d/%d) handed out value #%d but the live value of the key is %v", ns, key, v.id, lv)
	}
	if hold {
		w.out[v]++
		w.held = append(w.held, h)
		return
	}
	w.out[v]++
	w.out[v]--
	h.Release()
}

func (w *c17SeqWorld) release(i int) {
	h := w.held[i]
	w.held = append(w.held[:i:i], w.held[i+1:]...)
	if v, _ := h.Value().(*cval); v != nil {
		w.out[v]--
	}
	h.Release()
}

// retained recomputes the charge the replacement policy keeps alive on its own.
func (w *c17SeqWorld) retained() int {
	n := 0
	for _, v := range w.live {
		if v.released == 0 && w.out[v] == 0 {
			n += w.charge[v]
		}
	}
	return n
}

func (w *c17SeqWorld) apply(step int, op string) {
	t, arg := op, 0
	if i := strings.IndexByte(op, ':'); i >= 0 {
		t = op[:i]
		fmt.Sscanf(op[i+1:], "%d", &arg)
	}
	switch t {
	case "get":
		w.doGet(arg, false)
	case "hold":
		w.doGet(arg, true)
	case "getnil":
		// a fill that fails (the constructor has no value to offer, as when a table cannot be
		// opened): Get returns nil and leaves nothing behind - in particular no lock
		ns, key, _ := c17Key(arg)
		if lv := w.live[w.mkey(ns, key)]; lv != nil {
			break // only meaningful on a key without a live value
		}
		h := w.c.Get(ns, key, func() (int, cache.Value) { return 0, nil })
		if h != nil {
			w.bad("Get(%d/%d) with a failing constructor returned a handle", ns, key)
			h.Release()
		}
	case "rel":
		if len(w.held) > 0 {
			w.release(0)
		}
	case "reln":
		if len(w.held) > 0 {
			w.release(len(w.held) - 1)
		}
	case "del":
		ns, key, _ := c17Key(arg)
		mk := w.mkey(ns, key)
		name := fmt.Sprintf("s%d", step)
		existed := w.live[mk] != nil
		ok := w.c.Delete(ns, key, func() {
			w.delCalls[name]++
			for v, n := range w.out {
				if v.key == mk && n > 0 && v.released == 0 {
					w.bad("delete callback of key %d/%d ran while a handle to value #%d is outstanding", ns, key, v.id)
				}
			}
			if lv := w.live[mk]; lv != nil && lv.released == 0 {
				w.bad("delete callback of key %d/%d ran before value #%d was finalised", ns, key, lv.id)
			}
		})
		w.delCalls[name] += 0
		if ok != existed {
			w.bad("Delete(%d/%d) = %v but a live value %s", ns, key, ok, map[bool]string{true: "existed", false: "did not exist"}[existed])
		}
		if lv := w.live[mk]; lv != nil && w.out[lv] == 0 {
			w.bad("Delete(%d/%d): no handle is out but value #%d was not finalised", ns, key, lv.id)
		}
	case "evict":
		ns, key, _ := c17Key(arg)
		w.c.Evict(ns, key)
		if lv := w.live[w.mkey(ns, key)]; lv != nil && w.out[lv] == 0 {
			w.bad("Evict(%d/%d): no handle is out but value #%d stays alive", ns, key, lv.id)
		}
	case "evictns":
		w.c.EvictNS(uint64(arg))
		for mk, lv := range w.live {
			if mk>>32 == uint64(arg) && w.out[lv] == 0 {
				w.bad("EvictNS(%d): no handle is out but value #%d stays alive", arg, lv.id)
			}
		}
	case "evictall":
		w.c.EvictAll()
		for _, lv := range w.live {
			if w.out[lv] == 0 {
				w.bad("EvictAll: no handle is out but value #%d stays alive", lv.id)
			}
		}
	case "cap":
		w.c.SetCapacity(arg)
		w.capNow = arg
	default:
		panic("unknown cache op " + op)
	}
	for name, n := range w.delCalls {
		if n > 1 {
			w.bad("delete callback %s ran %d times", name, n)
		}
	}
	if r := w.retained(); r > w.capNow {
		w.bad("the replacement policy retains charge %d (values alive without any handle) > capacity %d", r, w.capNow)
	}
	if cp := w.c.Capacity(); cp != w.capNow {
		w.bad("Capacity() = %d, configured %d", cp, w.capNow)
	}
}

// runC17Seq executes one operation sequence, checking after every step; at the end every
// handle is released and the cache closed: every value finalised exactly once, every delete
// callback of an existing node ran exactly once.
func runC17Seq(capacity int, ops []string) (viol []string, steps int, maxRet int) {
	w := &c17SeqWorld{charge: map[*cval]int{}, capNow: capacity}
	w.live, w.out, w.delCalls = map[uint64]*cval{}, map[*cval]int{}, map[string]int{}
	w.c = cache.NewCache(cache.NewLRU(capacity))
	defer func() {
		// outside the scheduler a shim operation that would block for ever panics
		if r := recover(); r != nil {
			viol = append(viol, fmt.Sprintf("operation %d never returns (single goroutine): %v", steps, r))
		}
	}()
	for i, op := range ops {
		w.apply(i, op)
		steps++
		if r := w.retained(); r > maxRet {
			maxRet = r
		}
		if len(w.viol) > 0 {
			return w.viol, steps, maxRet
		}
	}
	for len(w.held) > 0 {
		w.release(0)
	}
	w.c.Close(false)
	if w.finalised != w.nvals {
		w.bad("%d values constructed, %d finalised after everything was released and the cache closed", w.nvals, w.finalised)
	}
	return w.viol, steps, maxRet
}

func c17SeqWorker(t *c17SeqTask) *c17SeqResult {
	res := &c17SeqResult{}
	ops := append([]string{}, t.First...)
	var rec func()
	rec = func() {
		if len(res.Viol) > 0 {
			return
		}
		if len(ops) == t.Depth {
			v, st, mr := runC17Seq(t.Cap, ops)
			res.Seqs++
			res.Steps += st
			if mr > res.Max {
				res.Max = mr
			}
			if len(v) > 0 {
				res.Viol = append(res.Viol, fmt.Sprintf("cap=%d ops=%s: %s", t.Cap, strings.Join(ops[:st], " "), v[0]))
			}
			return
		}
		for _, op := range c17SeqAlpha {
			ops = append(ops, op)
			rec()
			ops = ops[:len(ops)-1]
		}
	}
	rec()
	return res
}

func c17SeqMain(c *explore.Ctx, pool *explore.Pool) bool {
	depth := 5
	if c.Tier != "quick" {
		depth = 6
	}
	var tasks []c17SeqTask
	for _, cp := range []int{1, 2} {
		for _, a := range c17SeqAlpha {
			for _, b := range c17SeqAlpha {
				tasks = append(tasks, c17SeqTask{Cap: cp, First: []string{a, b}, Depth: depth})
			}
		}
	}
	var raw [][]byte
	for _, t := range tasks {
		raw = append(raw, explore.MustJSON(map[string]any{"seq": t}))
	}
	exh := true
	pool.Map(raw, func(i int, b []byte, err error) {
		var r c17SeqResult
		if err != nil {
			r.Viol = explore.CrashViol(err)
			exh = false
		} else {
			json.Unmarshal(b, &r)
		}
		c.Add("seq_sequences", r.Seqs)
		c.Add("seq_steps", r.Steps)
		c.Add("evaluations", r.Seqs)
		if r.Max > c.Get("seq_max_retained_charge") {
			c.Coverage["seq_max_retained_charge"] = r.Max
		}
		for _, v := range r.Viol {
			eff := v
			if j := strings.Index(v, ": "); j >= 0 {
				eff = v[j+2:]
			}
			c.Report(&explore.Violation{Property: "C17", Sig: map[string]string{"check": "cache-seq", "effect": stripDigits(eff)}, Detail: map[string]any{"task": map[string]any{"seq": tasks[i]}, "violation": v}})
		}
	})
	c.Coverage["seq_depth"] = depth
	c.Coverage["seq_alphabet"] = c17SeqAlpha
	return exh
}
